#!/usr/bin/env python3
"""Render the seeded-defect x check matrix from /verif/seeded/*/meta.json as a markdown table.
render_matrix.py [suffixes]   e.g. `render_matrix.py abcd` (rounds 1-2) or `render_matrix.py ef` (round 3)."""
import json, glob, os, sys
want = sys.argv[1] if len(sys.argv) > 1 else None
rows = []
for f in sorted(glob.glob("/verif/seeded/*/meta.json")):
    m = json.load(open(f))
    sid = m["seed"]; prop = m["property"]
    if want and sid[-1] not in want:
        continue
    caught = sorted(m.get("caught_by", {}).keys())
    tgt = m.get("caught_by", {}).get(prop, {})
    sig = tgt.get("signature", "") if isinstance(tgt, dict) else ""
    own = "**yes**" if prop in caught else "**NO**"
    d = m.get("own_check_at_default_budget")
    if prop not in caught and d and d.get("caught"):
        own = "**yes** (default budget; not within the matrix's %s runs)" % m.get("matrix_runs_per_check")
        sig = d.get("detail", {}).get("signature", "")
    pf = m.get("evaluated_on_pre_fix_tree")
    if prop not in caught and pf and pf.get("caught"):
        own = "**yes** on the tree it was made for (before fix f0b15c4)"
        sig = pf.get("signature", "")
    others = [c for c in caught if c != prop]
    summ = (m.get("summary") or "").replace("\n", " ").replace("|", "/")
    if len(summ) > 170:
        summ = summ[:167] + "..."
    rows.append("| %s | %s | %s | %s | %s |" % (sid, summ, own, ("`%s`" % sig) if sig else "", ", ".join(others)))
print("| seed | change (sub-agent's summary) | caught by its own check | signature reported | also reported by |")
print("|---|---|---|---|---|")
print("\n".join(rows))
