#!/usr/bin/env python3
"""Render the seeded-defect x check matrix from /verif/seeded/*/meta.json as a markdown table."""
import json, glob, os
rows = []
for f in sorted(glob.glob("/verif/seeded/*/meta.json")):
    m = json.load(open(f))
    sid = m["seed"]; prop = m["property"]
    caught = sorted(m.get("caught_by", {}).keys())
    tgt = m.get("caught_by", {}).get(prop, {})
    sig = tgt.get("signature", "") if isinstance(tgt, dict) else ""
    others = [c for c in caught if c != prop]
    summ = (m.get("summary") or "").replace("\n", " ").replace("|", "/")
    if len(summ) > 170:
        summ = summ[:167] + "..."
    rows.append("| %s | %s | %s | %s | %s |" % (sid, summ, "**yes**" if prop in caught else "**NO**", ("`%s`" % sig) if sig else "", ", ".join(others)))
print("| seed | change (sub-agent's summary) | caught by its own check | signature reported | also reported by |")
print("|---|---|---|---|---|")
print("\n".join(rows))
