#!/usr/bin/env python3
"""seed_eval.py <seed-worktree> <a|b> <property> [--checks C01,C02,...] [--runs N]

Confirms a seeded defect produced by a bug-seeding sub-agent and runs the registered checks against it:
 1. in the agent's scratch worktree (outside /repo and /verif): apply patch.diff, run the repository's whole
    test suite plus the demonstration (suite must pass, demo must fail), revert, run the demonstration again
    (must pass);
 2. apply the patch to /repo's working tree, run the quick checks, ALWAYS revert /repo afterwards;
 3. file everything under /verif/seeded/<property>-<a|b>/ (patch.diff, demonstration, meta.json).
"""
import json, os, re, shutil, subprocess, sys, time

def sh(cmd, cwd=None, timeout=3600):
    e = dict(os.environ); e["CARGO_NET_OFFLINE"] = "true"
    p = subprocess.run(cmd, cwd=cwd, shell=True, capture_output=True, text=True, env=e, timeout=timeout)
    return p.returncode, p.stdout + p.stderr

def main():
    wt, which, prop = sys.argv[1], sys.argv[2], sys.argv[3]
    checks = None
    runs = None
    if "--checks" in sys.argv:
        checks = sys.argv[sys.argv.index("--checks") + 1].split(",")
    if "--runs" in sys.argv:
        runs = sys.argv[sys.argv.index("--runs") + 1]
    src = os.path.join(wt, "SEEDED", which)
    patch = os.path.join(src, "patch.diff")
    meta_in = json.load(open(os.path.join(src, "meta.json")))
    demos = [f for f in os.listdir(src) if f.endswith(".rs")]
    out = os.path.join("/verif/seeded", "%s-%s" % (prop, which))
    os.makedirs(out, exist_ok=True)
    result = {"property": prop, "seed": "%s-%s" % (prop, which), "summary": meta_in.get("summary"), "needs": meta_in.get("needs"),
              "agent_report": {k: meta_in.get(k) for k in ("suite_result", "demo_with_change", "demo_without_change", "demo_cmd")}}

    # ---- 1. confirm in the scratch worktree
    rc, o = sh("git checkout -- src && git apply --check %s" % patch, cwd=wt)
    if rc != 0:
        result["confirmed"] = False; result["why"] = "patch does not apply to HEAD: " + o[-400:]
        json.dump(result, open(os.path.join(out, "meta.json"), "w"), indent=1); print(json.dumps(result, indent=1)); return
    for d in demos:
        shutil.copy(os.path.join(src, d), os.path.join(wt, "tests", d))
    demo_names = [d[:-3] for d in demos]
    sh("git apply %s" % patch, cwd=wt)
    rc, o = sh("cargo test --offline --no-fail-fast 2>&1", cwd=wt)
    # per test-binary results
    res = re.findall(r"Running (?:unittests )?(\S+).*?\n(?:.|\n)*?test result: (\w+)\. (\d+) passed; (\d+) failed", o)
    suite_fail, demo_fail = 0, 0
    blocks = re.split(r"\n\s+Running ", o)
    for b in blocks[1:]:
        head = b.split("\n", 1)[0]
        m = re.search(r"test result: \w+\. (\d+) passed; (\d+) failed", b)
        if not m:
            if any(n in head for n in demo_names):
                demo_fail += 1   # crashed / aborted
            continue
        failed = int(m.group(2))
        if any(n in head for n in demo_names):
            demo_fail += failed
        else:
            suite_fail += failed
    doc = re.search(r"Doc-tests(?:.|\n)*?test result: \w+\. (\d+) passed; (\d+) failed", o)
    if doc:
        suite_fail += int(doc.group(2))
    if suite_fail:
        # tokio tests are timing sensitive: one retry
        rc2, o2 = sh("cargo test --offline --no-fail-fast --lib 2>&1", cwd=wt)
        m = re.search(r"test result: \w+\. (\d+) passed; (\d+) failed", o2)
        if m and int(m.group(2)) == 0:
            result["suite_flaked_once"] = True
            suite_fail = 0
    result["suite_passes_with_change"] = suite_fail == 0
    result["demo_fails_with_change"] = demo_fail > 0
    if not demo_fail:
        # demonstrations of races may need a few attempts
        for attempt in range(4):
            rc3, o3 = sh("cargo test --offline " + " ".join("--test %s" % n for n in demo_names) + " 2>&1", cwd=wt)
            if rc3 != 0:
                result["demo_fails_with_change"] = True; result["demo_needed_attempts"] = attempt + 2; break
    sh("git apply -R %s" % patch, cwd=wt)
    rc4, o4 = sh("cargo test --offline " + " ".join("--test %s" % n for n in demo_names) + " 2>&1", cwd=wt)
    result["demo_passes_without_change"] = rc4 == 0
    for d in demos:
        os.remove(os.path.join(wt, "tests", d))
    sh("git checkout -- src", cwd=wt)
    result["confirmed"] = bool(result["suite_passes_with_change"] and result["demo_fails_with_change"] and result["demo_passes_without_change"])

    shutil.copy(patch, os.path.join(out, "patch.diff"))
    for d in demos:
        shutil.copy(os.path.join(src, d), os.path.join(out, d))

    # ---- 2. run the checks against it
    if result["confirmed"] and "--confirm-only" not in sys.argv:
        all_checks = [c["property_id"] for c in json.load(open("/verif/MANIFEST.json"))["checks"]]
        todo = checks or all_checks
        caught, clean, errors = {}, [], {}
        rc, o = sh("git -C /repo status --porcelain")
        if o.strip():
            print("REFUSING: /repo has local changes"); sys.exit(2)
        try:
            rc, o = sh("git -C /repo apply %s" % patch)
            if rc != 0:
                # /repo moved on since the seed was made (a later "fix:" commit next to the hunk): merge
                rc, o = sh("git -C /repo apply --3way %s && git -C /repo reset -q" % patch)
            assert rc == 0, o
            for c in todo:
                env = ("VERIF_RUNS=%s " % runs) if runs else ""
                t0 = time.time()
                rc, o = sh("%s./check %s quick" % (env, c), cwd="/verif", timeout=1800)
                line = next((l for l in o.splitlines() if l.startswith("VIOLATION")), "")
                found = [l for l in o.splitlines() if l.startswith("FOUND") or l.startswith("  ")][:3]
                if rc == 1:
                    caught[c] = {"line": line, "detail": found, "wall_s": round(time.time() - t0, 1)}
                elif rc == 0:
                    clean.append(c)
                else:
                    errors[c] = o[-600:]
        finally:
            sh("git -C /repo checkout -- .")
            sh("rm -rf /verif/replays")
        result["checks_run"] = todo
        result["caught_by"] = caught
        result["not_caught_by"] = clean
        result["harness_errors"] = errors
    result["what_was_run"] = "tools/seed_eval.py: suite + demonstration in the scratch worktree (with and without the change), then ./check <id> quick for the listed checks with the patch applied to /repo (reverted afterwards)"
    json.dump(result, open(os.path.join(out, "meta.json"), "w"), indent=1)
    print(json.dumps({k: result[k] for k in result if k not in ("agent_report",)}, indent=1)[:3000])

if __name__ == "__main__":
    main()
