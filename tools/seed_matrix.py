#!/usr/bin/env python3
"""seed_matrix.py [--runs N] [seed ids...]: apply each /verif/seeded/<id>/patch.diff to /repo (reverted afterwards),
run every registered quick check against it and record which checks report it in that seed's meta.json
(fields checks_run / caught_by / not_caught_by / noted_by / harness_errors). The confirmation fields written by
seed_eval.py (suite passes, demonstration fails with / passes without the change) are kept."""
import json, os, subprocess, sys, time, glob

def sh(cmd, cwd=None, timeout=3600):
    e = dict(os.environ); e["CARGO_NET_OFFLINE"] = "true"
    p = subprocess.run(cmd, cwd=cwd, shell=True, capture_output=True, text=True, env=e, timeout=timeout)
    return p.returncode, p.stdout + p.stderr

def main():
    runs = None
    args = sys.argv[1:]
    if "--runs" in args:
        i = args.index("--runs"); runs = args[i + 1]; del args[i:i + 2]
    own = False
    if "--own" in args:
        args.remove("--own"); own = True
    seeds = args or sorted(os.path.basename(os.path.dirname(p)) for p in glob.glob("/verif/seeded/*/patch.diff"))
    checks = [c["property_id"] for c in json.load(open("/verif/MANIFEST.json"))["checks"]]
    rc, o = sh("git -C /repo status --porcelain")
    if o.strip():
        print("REFUSING: /repo has local changes"); sys.exit(2)
    for sid in seeds:
        d = os.path.join("/verif/seeded", sid)
        meta = json.load(open(os.path.join(d, "meta.json")))
        caught, clean, noted, errors = {}, [], {}, {}
        t_all = time.time()
        try:
            rc, o = sh("git -C /repo apply %s" % os.path.join(d, "patch.diff"))
            if rc != 0:
                # /repo moved on since the seed was made (a later "fix:" commit next to a hunk): merge
                rc, o = sh("git -C /repo apply --3way %s && git -C /repo reset -q" % os.path.join(d, "patch.diff"))
            assert rc == 0, o
            for c in ([meta["property"]] if own else checks):
                env = ("VERIF_RUNS=%s " % runs) if runs else ""
                t0 = time.time()
                rc, o = sh("%s./check %s quick" % (env, c), cwd="/verif", timeout=1800)
                found = [l for l in o.splitlines() if l.startswith("FOUND") or l.startswith("  ")][:2]
                notes = [l for l in o.splitlines() if l.startswith("NOTE:")]
                if rc == 1:
                    caught[c] = {"signature": (found[0].split(" signature=", 1)[1].rsplit(" replay=", 1)[0] if found and " signature=" in found[0] else ""),
                                 "detail": (found[1].strip()[:300] if len(found) > 1 else ""), "wall_s": round(time.time() - t0, 1)}
                elif rc == 0:
                    clean.append(c)
                    if notes:
                        noted[c] = [n[:200] for n in notes[:2]]
                else:
                    errors[c] = o[-400:]
        finally:
            sh("git -C /repo checkout -- .")
            sh("rm -rf /verif/replays")
        if own:
            # a quick look with the seed's own check only: print, do not overwrite the matrix fields
            print("%s own-check=%s %s %s (%.0fs)" % (sid, "CAUGHT" if caught else "clean", json.dumps(caught)[:400], json.dumps(noted)[:300] + json.dumps(errors)[:300], time.time() - t_all), flush=True)
            meta["own_check_at_default_budget"] = {"runs": int(runs) if runs else "quick default", "caught": bool(caught), "detail": caught.get(meta["property"], {}), "noted": noted.get(meta["property"], [])}
            json.dump(meta, open(os.path.join(d, "meta.json"), "w"), indent=1)
            continue
        meta["checks_run"] = checks
        meta["caught_by"] = caught
        meta["not_caught_by"] = clean
        meta["noted_by"] = noted
        meta["harness_errors"] = errors
        meta["matrix_runs_per_check"] = int(runs) if runs else "quick default"
        json.dump(meta, open(os.path.join(d, "meta.json"), "w"), indent=1)
        print("%s target=%s caught_by=%s errors=%s (%.0fs)" % (sid, "YES" if meta["property"] in caught else "NO", sorted(caught), sorted(errors), time.time() - t_all), flush=True)

if __name__ == "__main__":
    main()
