//! SEQ family: one caller drives the real cache step by step (worker, sweeper and consumer still run
//! as separately scheduled tasks); a small executable reference model predicts, from the *observed*
//! state before each operation, the status, the read results and the complete observable state
//! after it. After every step the prediction is compared with the cache and the model re-synchronises
//! to what was observed, so that each step is judged on its own and a divergence in one aspect does
//! not cascade into alarms about another.
use crate::exec::{self, Cache, Online};
use crate::gen::{token, ADVANCES, TTLS};
use crate::hist::*;
use crate::rng::Rng;
use crate::scenario::*;
use std::collections::{BTreeMap, BTreeSet};

pub const TTL_ENTRY: i64 = 24;

#[derive(Clone, Debug, PartialEq)]
pub struct KeyM {
    /// None = unknown (the entry was adopted from an observation the model did not predict)
    pub val: Option<u64>,
    pub id: u64,
    pub expiry: Option<Dur>,
    /// the entry's value / expiry was last set by a put_or_update
    pub by_upsert: bool,
}

#[derive(Clone, Copy, Debug, PartialEq, Eq, Hash, PartialOrd, Ord)]
pub enum KState {
    Absent,
    Live,
    LiveTtl,
    ExpiredUnswept,
    SoftDeleted,
}

impl KState {
    pub fn name(self) -> &'static str {
        match self {
            KState::Absent => "absent",
            KState::Live => "live",
            KState::LiveTtl => "live-ttl",
            KState::ExpiredUnswept => "expired-unswept",
            KState::SoftDeleted => "soft-deleted",
        }
    }
    pub fn readable(self) -> bool {
        matches!(self, KState::Live | KState::LiveTtl)
    }
}

/// One disagreement between prediction and cache.
#[derive(Clone, Debug)]
pub struct Mis {
    /// which observable disagrees: status, read, weight_used, store, weights, index, stats.<f>,
    /// limit, sweep, admission, upsert, hit_ratio
    pub aspect: &'static str,
    pub class: String,
    pub ctx: String,
    pub msg: String,
}

#[derive(Clone, Debug)]
pub struct Model {
    pub cfg: Cfg,
    pub now: Dur,
    pub keys: BTreeMap<u32, KeyM>,
    pub soft: BTreeSet<u32>,
    pub charged: BTreeMap<u64, (u32, i64)>,
    pub total: i64,
    /// expiry index entries (key id, expiry); an id may (through a defect) sit in several shards
    pub index: BTreeSet<(u64, Dur)>,
    pub stats: Stats,
    pub tick_pending: bool,
    /// ids of entries that were already expired when a full rotation of sweeps began and are still
    /// held after it: the sweeper will never come for them ("expired" for good, not "not yet swept")
    pub passed_over: BTreeSet<u64>,
    /// upsert / delete issued with Wait::Later whose queued part has not been awaited yet
    pub pending: Vec<Op>,
    /// last known id -> key (for evicted ids reported by events)
    pub evictions_seen: u64,
    pub sweeps_seen: u64,
    /// name of the last operation that was not a read / observation
    pub last_mutation: String,
    /// key of the last write operation
    pub last_key: Option<u32>,
    /// conditions that, once broken, stay broken: they are reported at the step that breaks them
    pub bad_limit: bool,
    pub bad_accounting: bool,
    pub bad_keys_identity: bool,
    pub bad_weight_identity: bool,
    /// puts / upserts-as-put that were acknowledged with an admission rejection (not enough space,
    /// heavier than the cache), as observed by the caller
    pub seen_admission_rejections: u64,
}

fn add_dur(a: Dur, b: Dur) -> Option<Dur> {
    a.to_std().checked_add(b.to_std()).map(Dur::from_std)
}

impl Model {
    pub fn new(cfg: &Cfg) -> Model {
        Model {
            cfg: cfg.clone(),
            now: cfg.start,
            keys: BTreeMap::new(),
            soft: BTreeSet::new(),
            charged: BTreeMap::new(),
            total: 0,
            index: BTreeSet::new(),
            stats: Stats::default(),
            tick_pending: false,
            passed_over: BTreeSet::new(),
            pending: vec![],
            evictions_seen: 0,
            sweeps_seen: 0,
            last_mutation: String::new(),
            last_key: None,
            bad_limit: false,
            bad_accounting: false,
            bad_keys_identity: false,
            bad_weight_identity: false,
            seen_admission_rejections: 0,
        }
    }

    pub fn state(&self, k: u32) -> KState {
        match self.keys.get(&k) {
            None => KState::Absent,
            Some(e) => {
                if self.soft.contains(&k) {
                    KState::SoftDeleted
                } else {
                    match e.expiry {
                        None => KState::Live,
                        Some(x) => {
                            if self.now > x {
                                KState::ExpiredUnswept
                            } else {
                                KState::LiveTtl
                            }
                        }
                    }
                }
            }
        }
    }

    /// Some(Some(v)) = must return v, Some(None) = must return None, None = readable but the value
    /// is unknown to the model (nothing is asserted about it)
    pub fn expected_read(&self, k: u32) -> Option<Option<u64>> {
        if self.state(k).readable() {
            match self.keys.get(&k).and_then(|e| e.val) {
                Some(v) => Some(Some(v)),
                None => None,
            }
        } else {
            Some(None)
        }
    }

    pub fn weight_of_key(&self, k: u32) -> Option<i64> {
        self.keys.get(&k).and_then(|e| self.charged.get(&e.id)).map(|c| c.1)
    }

    pub fn free(&self) -> i64 {
        self.cfg.weight - self.total
    }

    fn add_weight_stat(&mut self, new_w: i64, old_w: i64) {
        // mirrors CacheWeight::update_weight_stats (two's-complement add for decreases)
        if new_w > old_w {
            self.stats.weight_added = self.stats.weight_added.wrapping_add((new_w - old_w) as u64);
        } else {
            let d = old_w - new_w;
            self.stats.weight_added = self.stats.weight_added.wrapping_add(!(d - 1) as u64);
        }
    }

    /// TTLTicker::put: the shard of `e` maps the id to `e` (replacing an entry of that id there)
    fn index_put(&mut self, id: u64, e: Dur) {
        let shards = self.cfg.shards as u64;
        let same: Vec<(u64, Dur)> = self.index.iter().filter(|(i, x)| *i == id && x.s % shards == e.s % shards).copied().collect();
        for x in same {
            self.index.remove(&x);
        }
        self.index.insert((id, e));
    }

    /// TTLTicker::delete: remove the id from the shard of `e`
    fn index_delete(&mut self, id: u64, e: Dur) {
        let shards = self.cfg.shards as u64;
        let same: Vec<(u64, Dur)> = self.index.iter().filter(|(i, x)| *i == id && x.s % shards == e.s % shards).copied().collect();
        for x in same {
            self.index.remove(&x);
        }
    }

    fn evict_id(&mut self, id: u64) {
        if let Some((key, w)) = self.charged.remove(&id) {
            self.total -= w;
            self.stats.weight_removed = self.stats.weight_removed.wrapping_add(w as u64);
            // the hook deletes the store entry *by key*
            if self.keys.remove(&key).is_some() {
                self.soft.remove(&key);
                self.stats.keys_deleted += 1;
            }
        }
    }

    /// sweep as the sweeper does it for one tick at `now`; returns the ids whose hook fires
    fn sweep(&mut self, now: Dur) -> Vec<u64> {
        let shards = self.cfg.shards as u64;
        let shard = now.s % shards;
        let due_entries: Vec<(u64, Dur)> = self.index.iter().filter(|(_, e)| e.s % shards == shard && now > *e).copied().collect();
        let mut due = vec![];
        for (id, e) in due_entries {
            self.index.remove(&(id, e));
            self.evict_id(id);
            due.push(id);
        }
        due
    }

    /// Apply one executed operation: `st` is the acknowledged status (writes), `vals` the read
    /// result, `events` the hook events recorded while the operation ran.
    pub fn apply(&mut self, op: &Op, st: Option<St>, vals: &[Option<u64>], events: &[Hook], out: &mut Vec<Mis>) {
        if !matches!(op, Op::Read { .. } | Op::WeightUsed | Op::Stats | Op::AwaitAll | Op::Yield) {
            self.last_mutation = crate::oracle::opname2(op).to_string();
            if op.is_write() {
                self.last_key = op.key();
            }
        }
        if matches!(op, Op::Put { .. } | Op::Upsert { .. }) && matches!(st, Some(St::RejNoSpace) | Some(St::RejTooHeavy)) {
            self.seen_admission_rejections += 1;
        }
        match op {
            Op::Put { key, val, weight, ttl, .. } => {
                let w = weight.unwrap_or_else(|| weight_of(&self.cfg.weight_fn, *key, *val, ttl.is_some()));
                self.apply_put(*key, *val, w, *ttl, st, events, out, "put");
            }
            Op::Upsert { key, val, weight, ttl, remove_ttl, wait } => {
                self.apply_upsert(*key, *val, *weight, *ttl, *remove_ttl, *wait, st, events, out);
            }
            Op::Delete { key, wait } => {
                let state = self.state(*key);
                if *wait == Wait::Later {
                    // phase 1 only: hidden at return
                    if self.keys.contains_key(key) {
                        self.soft.insert(*key);
                    }
                    self.pending.push(op.clone());
                    return;
                }
                self.apply_delete(*key, state, st, out);
            }
            Op::Read { kind, keys } => {
                for (pos, k) in keys.iter().enumerate() {
                    let got = vals.get(pos).copied().flatten();
                    if self.state(*k).readable() {
                        self.stats.hits += 1;
                    } else {
                        self.stats.misses += 1;
                    }
                    let exp = match self.expected_read(*k) {
                        Some(e) => e,
                        None => {
                            // value unknown: only presence is judged
                            if got.is_some() {
                                continue;
                            }
                            None
                        }
                    };
                    if exp != got {
                        let state = self.state(*k);
                        let class = match (exp, got) {
                            (Some(_), None) => "missing",
                            (None, Some(_)) => "served-unreadable",
                            _ => "wrong-value",
                        };
                        out.push(Mis {
                            aspect: "read",
                            class: class.to_string(),
                            ctx: format!("state={},variant={:?}", state.name(), kind),
                            msg: format!("{:?}(k{}) returned {:x?}, expected {:x?} (key state {})", kind, k, got, exp, state.name()),
                        });
                    }
                }
            }
            Op::Advance(d) => {
                let next = add_dur(self.now, *d).unwrap_or(self.now);
                if next.s <= exec::MAX_CLOCK_SECS {
                    self.now = next;
                }
            }
            Op::Rewind(d) => {
                self.now = self.now.to_std().checked_sub(d.to_std()).map(Dur::from_std).unwrap_or(self.now);
            }
            Op::Tick => {
                self.tick_pending = true;
            }
            Op::AwaitIdle(RoleName::Sweeper) => {
                if self.tick_pending {
                    self.tick_pending = false;
                    let due = self.sweep(self.now);
                    self.check_sweep(&due, events, out);
                }
            }
            Op::Rotate => {
                let mut due_all = vec![];
                for _ in 0..self.cfg.shards {
                    self.now = add_dur(self.now, Dur::secs(1)).unwrap();
                    due_all.extend(self.sweep(self.now));
                }
                self.check_sweep(&due_all, events, out);
            }
            Op::AwaitAll => {
                let pend = std::mem::take(&mut self.pending);
                for p in pend {
                    match p {
                        Op::Delete { key, .. } => {
                            let state = if self.soft.contains(&key) { KState::SoftDeleted } else { self.state(key) };
                            self.apply_delete(key, state, st, out);
                        }
                        Op::Upsert { key, weight: Some(w), .. } => {
                            self.apply_weight_update(key, w);
                        }
                        _ => {}
                    }
                }
            }
            _ => {}
        }
    }

    fn check_sweep(&mut self, due: &[u64], events: &[Hook], out: &mut Vec<Mis>) {
        let mut got: Vec<u64> = events
            .iter()
            .filter_map(|e| match e {
                Hook::SweepExpired { id, .. } => Some(*id),
                _ => None,
            })
            .collect();
        got.sort();
        let mut exp = due.to_vec();
        exp.sort();
        self.sweeps_seen += got.len() as u64;
        if got != exp {
            out.push(Mis {
                aspect: "sweep",
                class: if got.iter().any(|g| !exp.contains(g)) { "swept-not-due".into() } else { "due-not-swept".into() },
                ctx: String::new(),
                msg: format!("sweeper expired ids {:?}, model expected {:?} at {}.{:09}", got, exp, self.now.s, self.now.n),
            });
        }
    }

    #[allow(clippy::too_many_arguments)]
    fn apply_put(&mut self, key: u32, val: u64, w: i64, ttl: Option<Dur>, st: Option<St>, events: &[Hook], out: &mut Vec<Mis>, what: &str) {
        let state = self.state(key);
        let got = st.unwrap_or(St::Pending);
        if self.keys.contains_key(&key) {
            // physically present: the implementation answers on the spot
            if state.readable() {
                if got != St::RejExists {
                    out.push(Mis {
                        aspect: "status",
                        class: "readable-not-rejected".into(),
                        ctx: format!("state={},op={}", state.name(), what),
                        msg: format!("{} of readable k{} acknowledged {:?}, expected Rejected(KeyAlreadyExists)", what, key, got),
                    });
                }
            } else if got == St::RejExists {
                let passed_over = state == KState::ExpiredUnswept && self.keys.get(&key).map(|e| self.passed_over.contains(&e.id)).unwrap_or(false);
                let name = if passed_over { "expired-and-passed-over-by-a-full-rotation" } else { state.name() };
                out.push(Mis {
                    aspect: "status",
                    class: "absent-rejected-as-existing".into(),
                    ctx: format!("state={},op={}", name, what),
                    msg: format!("{} of k{} which reads as absent ({}) was rejected with KeyAlreadyExists", what, key, name),
                });
            }
            return;
        }
        let id = events
            .iter()
            .find_map(|e| match e {
                Hook::ApplyBegin { id, .. } => Some(*id),
                _ => None,
            })
            .unwrap_or(0);
        let evicted: Vec<u64> = events
            .iter()
            .filter_map(|e| match e {
                Hook::Evicted { id } => Some(*id),
                _ => None,
            })
            .collect();
        let limit = self.cfg.weight;
        let ctx = format!("state={},op={}", state.name(), what);
        if w > limit {
            if got != St::RejTooHeavy {
                out.push(Mis {
                    aspect: "admission",
                    class: "heavy-not-rejected".into(),
                    ctx: ctx.clone(),
                    msg: format!("{} k{} weight {} > cache weight {} acknowledged {:?}", what, key, w, limit, got),
                });
            }
            if !evicted.is_empty() {
                out.push(Mis { aspect: "admission", class: "heavy-changed-state".into(), ctx, msg: format!("over-weight put evicted {:?}", evicted) });
            }
            if got.is_rejected() {
                self.stats.keys_rejected += 1;
            }
            return;
        }
        if self.free() >= w {
            if got != St::Accepted {
                out.push(Mis {
                    aspect: "admission",
                    class: "fit-not-accepted".into(),
                    ctx: ctx.clone(),
                    msg: format!("{} k{} weight {} fits in free space {} but was acknowledged {:?}", what, key, w, self.free(), got),
                });
            }
            if !evicted.is_empty() {
                out.push(Mis {
                    aspect: "admission",
                    class: "fit-evicted".into(),
                    ctx: ctx.clone(),
                    msg: format!("{} k{} weight {} fits in free space {} yet evicted ids {:?}", what, key, w, self.free(), evicted),
                });
            }
        }
        // adopt the evictions the policy chose
        for id in &evicted {
            self.evictions_seen += 1;
            self.evict_id(*id);
        }
        match got {
            St::Accepted => {
                if self.free() < w {
                    out.push(Mis {
                        aspect: "admission",
                        class: "accepted-without-space".into(),
                        ctx: ctx.clone(),
                        msg: format!("{} k{} weight {} accepted with only {} free after evictions", what, key, w, self.free()),
                    });
                }
                let expiry = ttl.and_then(|d| add_dur(self.now, d));
                self.keys.insert(key, KeyM { val: Some(val), id, expiry, by_upsert: what == "upsert" });
                self.charged.insert(id, (key, w));
                self.total += w;
                self.stats.keys_added += 1;
                self.stats.weight_added = self.stats.weight_added.wrapping_add(w as u64);
                if let Some(e) = expiry {
                    self.index_put(id, e);
                }
            }
            St::RejNoSpace => {
                if self.free() >= w {
                    // fits after (partial) eviction yet rejected
                    out.push(Mis {
                        aspect: "admission",
                        class: "rejected-with-space".into(),
                        ctx,
                        msg: format!("{} k{} weight {} rejected (no space) with {} free", what, key, w, self.free()),
                    });
                }
                self.stats.keys_rejected += 1;
            }
            other => {
                if other.is_rejected() {
                    self.stats.keys_rejected += 1;
                }
                out.push(Mis {
                    aspect: "status",
                    class: "unexpected-status".into(),
                    ctx,
                    msg: format!("{} of absent k{} (weight {}, free {}) acknowledged {:?}", what, key, w, self.free(), other),
                });
            }
        }
    }

    fn apply_weight_update(&mut self, key: u32, w: i64) {
        if let Some(e) = self.keys.get(&key) {
            let id = e.id;
            if let Some(c) = self.charged.get(&id).copied() {
                self.total += w - c.1;
                self.charged.insert(id, (c.0, w));
                self.stats.keys_updated += 1;
                self.add_weight_stat(w, c.1);
            }
        }
    }

    #[allow(clippy::too_many_arguments)]
    fn apply_upsert(
        &mut self,
        key: u32,
        val: Option<u64>,
        weight: Option<i64>,
        ttl: Option<Dur>,
        remove_ttl: bool,
        wait: Wait,
        st: Option<St>,
        events: &[Hook],
        out: &mut Vec<Mis>,
    ) {
        let state = self.state(key);
        let shape = format!(
            "{}{}{}{}",
            if val.is_some() { "v" } else { "" },
            if weight.is_some() { "w" } else { "" },
            if ttl.is_some() { "t" } else { "" },
            if remove_ttl { "r" } else { "" }
        );
        if !self.keys.contains_key(&key) {
            // acts as the corresponding put
            let v = val.expect("generator gives a value for keys that are not readable");
            let w = weight.unwrap_or_else(|| weight_of(&self.cfg.weight_fn, key, v, ttl.is_some()));
            self.apply_put(key, v, w, ttl, st, events, out, "upsert");
            return;
        }
        // in place, on the caller thread
        let (id, existing_expiry) = {
            let e = self.keys.get(&key).unwrap();
            (e.id, e.expiry)
        };
        let new_expiry = if remove_ttl {
            None
        } else if let Some(d) = ttl {
            add_dur(self.now, d)
        } else {
            existing_expiry
        };
        {
            let e = self.keys.get_mut(&key).unwrap();
            if let Some(v) = val {
                e.val = Some(v);
            }
            e.expiry = new_expiry;
            e.by_upsert = true;
        }
        let existing_w = self.charged.get(&id).map(|c| c.1).unwrap_or(0);
        let mut upd = weight.or_else(|| val.map(|v| weight_of(&self.cfg.weight_fn, key, v, ttl.is_some())));
        match (existing_expiry, new_expiry) {
            (None, Some(n)) => {
                self.index_put(id, n);
                upd = upd.or(Some(existing_w.saturating_add(TTL_ENTRY)));
            }
            (Some(o), None) => {
                self.index_delete(id, o);
                upd = upd.or(Some(existing_w - TTL_ENTRY));
            }
            (Some(o), Some(n)) if o != n => {
                self.index_delete(id, o);
                self.index_put(id, n);
            }
            _ => {}
        }
        if let Some(w) = upd {
            if wait == Wait::Later {
                self.pending.push(Op::Upsert { key, val: None, weight: Some(w), ttl: None, remove_ttl: false, wait });
            } else {
                self.apply_weight_update(key, w);
            }
        }
        if wait != Wait::Later {
            let got = st.unwrap_or(St::Pending);
            if got != St::Accepted {
                out.push(Mis {
                    aspect: "status",
                    class: "unexpected-status".into(),
                    ctx: format!("state={},shape={}", state.name(), shape),
                    msg: format!("upsert of present k{} acknowledged {:?}", key, got),
                });
            }
        }
        // the key read as absent before: the upsert has to behave like the put, in particular an
        // accepted upsert must not be lost
        if !state.readable() {
            if let Some(v) = val {
                if self.expected_read(key) != Some(Some(v)) {
                    out.push(Mis {
                        aspect: "upsert",
                        class: "accepted-but-lost".into(),
                        ctx: format!("state={},shape={}", state.name(), shape),
                        msg: format!("upsert({}) of k{} which read as absent ({}) was accepted but the key is still not readable", shape, key, state.name()),
                    });
                }
            }
        }
    }

    fn apply_delete(&mut self, key: u32, state: KState, st: Option<St>, out: &mut Vec<Mis>) {
        let ctx = format!("state={}", state.name());
        if let Some(e) = self.keys.remove(&key) {
            self.soft.remove(&key);
            self.stats.keys_deleted += 1;
            if let Some((_, w)) = self.charged.remove(&e.id) {
                self.total -= w;
                self.stats.weight_removed = self.stats.weight_removed.wrapping_add(w as u64);
            }
            if let Some(x) = e.expiry {
                self.index_delete(e.id, x);
            }
            if let Some(got) = st {
                if got != St::Accepted {
                    out.push(Mis {
                        aspect: "status",
                        class: "present-delete-not-accepted".into(),
                        ctx,
                        msg: format!("delete of present k{} acknowledged {:?}", key, got),
                    });
                }
            }
        } else if let Some(got) = st {
            if got != St::RejNoKey {
                out.push(Mis {
                    aspect: "status",
                    class: "absent-delete-not-rejected".into(),
                    ctx,
                    msg: format!("delete of absent k{} acknowledged {:?}, expected Rejected(KeyDoesNotExist)", key, got),
                });
            }
        }
    }

    /// Compare the predicted state with an observation.
    pub fn compare(&self, o: &Obs, out: &mut Vec<Mis>) {
        let limit = self.cfg.weight;
        if (o.weight_used < 0 || o.weight_used > limit) && !self.bad_limit {
            out.push(Mis {
                aspect: "limit",
                class: if o.weight_used < 0 { "negative".into() } else { "over-limit".into() },
                ctx: String::new(),
                msg: format!("total_weight_used() = {} with limit {}", o.weight_used, limit),
            });
        }
        if o.weight_used != self.total {
            out.push(Mis {
                aspect: "weight_used",
                class: "total-mismatch".into(),
                ctx: String::new(),
                msg: format!("total_weight_used() = {}, model {}", o.weight_used, self.total),
            });
        }
        let sum: i64 = o.weights.iter().map(|w| w.3).sum();
        if sum != o.weight_used && !self.bad_accounting {
            out.push(Mis {
                aspect: "accounting",
                class: "sum-mismatch".into(),
                ctx: String::new(),
                msg: format!("sum of charged weights {} != total_weight_used() {}", sum, o.weight_used),
            });
        }
        let store_ids: BTreeSet<u64> = o.store.iter().map(|s| s.1).collect();
        let charged_ids: BTreeSet<u64> = o.weights.iter().map(|w| w.0).collect();
        if store_ids != charged_ids && !self.bad_accounting {
            let orphan: Vec<&u64> = charged_ids.difference(&store_ids).collect();
            let uncharged: Vec<&u64> = store_ids.difference(&charged_ids).collect();
            out.push(Mis {
                aspect: "accounting",
                class: if !orphan.is_empty() { "orphan-charged-id".into() } else { "uncharged-entry".into() },
                ctx: String::new(),
                msg: format!("charged ids without store entry {:?}; store entries whose id is not charged {:?}", orphan, uncharged),
            });
        }
        let exp_store: Vec<(u32, u64, Option<Dur>, bool)> =
            self.keys.iter().map(|(k, e)| (*k, e.id, e.expiry, self.soft.contains(k))).collect();
        if exp_store != o.store {
            // same entries (key, id, mark), only deadlines differ?
            let strip = |v: &Vec<(u32, u64, Option<Dur>, bool)>| v.iter().map(|e| (e.0, e.1, e.3)).collect::<Vec<_>>();
            let only_deadlines = strip(&exp_store) == strip(&o.store);
            out.push(Mis {
                aspect: "store",
                class: "store-mismatch".into(),
                ctx: if only_deadlines { "only-deadlines-differ".to_string() } else { String::new() },
                msg: format!("store entries (key,id,expiry,soft) {:?}, model {:?}", o.store, exp_store),
            });
        }
        let exp_weights: Vec<(u64, u32, u64, i64)> =
            self.charged.iter().map(|(id, (k, w))| (*id, *k, self.cfg.hash_of(*k), *w)).collect();
        if exp_weights != o.weights {
            out.push(Mis {
                aspect: "weights",
                class: "charged-mismatch".into(),
                ctx: String::new(),
                msg: format!("charged (id,key,hash,weight) {:?}, model {:?}", o.weights, exp_weights),
            });
        }
        let shards = self.cfg.shards as u64;
        let mut exp_index: Vec<(usize, u64, Dur)> = self.index.iter().map(|(id, e)| ((e.s % shards) as usize, *id, *e)).collect();
        exp_index.dedup();
        exp_index.sort();
        if exp_index != o.expiry_index {
            out.push(Mis {
                aspect: "index",
                class: "expiry-index-mismatch".into(),
                ctx: String::new(),
                msg: format!("expiry index (shard,id,expiry) {:?}, model {:?}", o.expiry_index, exp_index),
            });
        }
        let s = &o.stats;
        let m = &self.stats;
        let pairs: [(&'static str, u64, u64); 8] = [
            ("stats.hits", s.hits, m.hits),
            ("stats.misses", s.misses, m.misses),
            ("stats.keys_added", s.keys_added, m.keys_added),
            ("stats.keys_deleted", s.keys_deleted, m.keys_deleted),
            ("stats.keys_updated", s.keys_updated, m.keys_updated),
            ("stats.keys_rejected", s.keys_rejected, m.keys_rejected),
            ("stats.weight_added", s.weight_added, m.weight_added),
            ("stats.weight_removed", s.weight_removed, m.weight_removed),
        ];
        for (name, got, exp) in pairs {
            if got != exp {
                out.push(Mis { aspect: name, class: "counter-mismatch".into(), ctx: String::new(), msg: format!("{} = {}, model {}", name, got, exp) });
            }
        }
        // identities of C16 straight from the observation
        let lookups = s.hits + s.misses;
        let exp_ratio = if lookups == 0 { 0 } else { ((s.hits as f64 / lookups as f64) * 1_000_000.0).round() as u64 };
        if s.hit_ratio_ppm != exp_ratio {
            let shape = if s.misses == 0 { "all-hit" } else if s.hits == 0 { "all-miss" } else { "mixed" };
            out.push(Mis {
                aspect: "hit_ratio",
                class: "hit-ratio".into(),
                ctx: format!("workload={}", shape),
                msg: format!("hit_ratio = {} ppm with hits {} misses {}, expected {} ppm", s.hit_ratio_ppm, s.hits, s.misses, exp_ratio),
            });
        }
        if s.keys_rejected != self.seen_admission_rejections && self.pending.is_empty() {
            out.push(Mis {
                aspect: "stats.identity",
                class: "rejected".into(),
                ctx: String::new(),
                msg: format!("KeysRejected {} != {} puts acknowledged as refused by admission", s.keys_rejected, self.seen_admission_rejections),
            });
        }
        if s.hits + s.misses != m.hits + m.misses {
            out.push(Mis {
                aspect: "stats.identity",
                class: "lookups".into(),
                ctx: String::new(),
                msg: format!("hits {} + misses {} != {} lookups performed", s.hits, s.misses, m.hits + m.misses),
            });
        }
        if s.keys_added.wrapping_sub(s.keys_deleted) != o.store.len() as u64 && !self.bad_keys_identity {
            out.push(Mis {
                aspect: "stats.identity",
                class: "keys".into(),
                ctx: String::new(),
                msg: format!("KeysAdded {} - KeysDeleted {} != keys held {}", s.keys_added, s.keys_deleted, o.store.len()),
            });
        }
        if s.weight_added.wrapping_sub(s.weight_removed) != o.weight_used as u64 && !self.bad_weight_identity {
            out.push(Mis {
                aspect: "stats.identity",
                class: "weight".into(),
                ctx: String::new(),
                msg: format!("WeightAdded {} - WeightRemoved {} != total weight used {}", s.weight_added, s.weight_removed, o.weight_used),
            });
        }
    }

    /// Behavioural judgement of a sweep step (`self` = state predicted before adopting `o`, `pre` =
    /// state before the step): which keys disappeared, were they due, was their weight released,
    /// and -- after a full rotation -- is every key that was already expired gone. Nothing here
    /// depends on how the implementation indexes expiries or on which tick visits which shard.
    pub fn sweep_semantics(&self, pre: &Model, o: &Obs, rotated: bool, out: &mut Vec<Mis>) {
        let now_after = self.now;
        let held: BTreeMap<u32, u64> = o.store.iter().map(|s| (s.0, s.1)).collect();
        let charged: BTreeSet<u64> = o.weights.iter().map(|w| w.0).collect();
        for (k, e) in &pre.keys {
            let gone = held.get(k) != Some(&e.id);
            if gone {
                let due = match e.expiry {
                    Some(x) => now_after > x,
                    None => false,
                };
                if !due {
                    out.push(Mis {
                        aspect: "sweep-semantic",
                        class: if e.expiry.is_none() { "swept-no-ttl".into() } else { "swept-not-due".into() },
                        ctx: if e.by_upsert { "last=upsert".into() } else { "last=put".into() },
                        msg: format!(
                            "k{} (id {}, expiry {:?}) disappeared during a sweep step although the clock ({}.{:09}) has not passed its current expiry",
                            k, e.id, e.expiry.map(|x| (x.s, x.n)), now_after.s, now_after.n
                        ),
                    });
                }
                if charged.contains(&e.id) {
                    out.push(Mis {
                        aspect: "sweep-semantic",
                        class: "weight-not-reclaimed".into(),
                        ctx: String::new(),
                        msg: format!("k{} (id {}) was removed by the sweep but its id is still charged", k, e.id),
                    });
                }
            } else if rotated {
                if let Some(x) = e.expiry {
                    if pre.now >= x && !pre.soft.contains(k) {
                        out.push(Mis {
                            aspect: "sweep-semantic",
                            class: "not-swept-after-rotation".into(),
                            ctx: String::new(),
                            msg: format!(
                                "k{} (id {}) expired at {}.{:09}, before the rotation began ({}.{:09}); after sweeping every shard it is still held",
                                k, e.id, x.s, x.n, pre.now.s, pre.now.n
                            ),
                        });
                    }
                }
            }
        }
    }

    /// Adopt what was observed (values are kept for entries that are still the same incarnation).
    pub fn resync(&mut self, o: &Obs) {
        let mut keys = BTreeMap::new();
        let mut soft = BTreeSet::new();
        for (k, id, expiry, is_soft) in &o.store {
            let (val, by_upsert) = match self.keys.get(k) {
                Some(e) if e.id == *id => (e.val, e.by_upsert),
                _ => (None, false),
            };
            keys.insert(*k, KeyM { val, id: *id, expiry: *expiry, by_upsert });
            if *is_soft {
                soft.insert(*k);
            }
        }
        self.keys = keys;
        self.soft = soft;
        self.charged = o.weights.iter().map(|(id, k, _, w)| (*id, (*k, *w))).collect();
        self.total = o.weight_used;
        self.index = o.expiry_index.iter().map(|(_, id, e)| (*id, *e)).collect();
        let keep_access = (self.stats.access_added, self.stats.access_dropped);
        self.stats = o.stats.clone();
        self.stats.access_added = keep_access.0;
        self.stats.access_dropped = keep_access.1;
        self.stats.hit_ratio_ppm = 0;
        self.seen_admission_rejections = o.stats.keys_rejected;
        self.bad_limit = o.weight_used < 0 || o.weight_used > self.cfg.weight;
        let sum: i64 = o.weights.iter().map(|w| w.3).sum();
        let store_ids: BTreeSet<u64> = o.store.iter().map(|s| s.1).collect();
        let charged_ids: BTreeSet<u64> = o.weights.iter().map(|w| w.0).collect();
        self.bad_accounting = sum != o.weight_used || store_ids != charged_ids;
        self.bad_keys_identity = o.stats.keys_added.wrapping_sub(o.stats.keys_deleted) != o.store.len() as u64;
        self.bad_weight_identity = o.stats.weight_added.wrapping_sub(o.stats.weight_removed) != o.weight_used as u64;
    }
}

// ------------------------------------------------------------------------------------------------
// The online driver

/// What a SEQ driver is asked to concentrate on.
#[derive(Clone, Debug)]
pub struct Focus {
    pub property: &'static str,
    /// relative weights: put, upsert, delete, read, advance, tick, rotate, weight/stats
    pub mix: [u32; 8],
    pub ttl_pct: u64,
    /// avoid flags (active while the corresponding finding is open)
    pub avoid_put_on_unreadable_present: bool, // D3
    pub avoid_value_only_upsert_on_unreadable: bool, // D4
    pub avoid_raise_beyond_free: bool, // D5
    pub avoid_remove_ttl_underflow: bool, // D6
    pub avoid_ttl_add_overflow: bool, // D10
    /// upserts use Wait::Later + read + AwaitAll (visibility at return)
    pub later_pct: u64,
    /// reads between operations
    pub verify_read_pct: u64,
    /// prefer keys in these states when choosing the key of a put / upsert
    pub prefer: Vec<KState>,
    pub max_ttl_secs: u64,
    /// EDGE: draw weights and TTLs at type / arithmetic boundaries
    pub edge: bool,
    /// C06: read the estimates before every put (consumer idle) and judge the decision events
    pub check_admission: bool,
    /// C14: mirror the sketch and compare after every step
    pub mirror: bool,
    /// quiesce the consumer before this percentage of puts (so that estimates are current)
    pub consumer_idle_pct: u64,
    /// fault kind "clock moves backwards": percentage of clock operations that are rewinds
    pub rewind_pct: u64,
    /// C06: do not quiesce the consumer before a put; estimates used by the decision are judged
    /// against the interval [estimate before, estimate after] (when no ageing happened in between)
    pub admission_race: bool,
    /// C14: quiesce the consumer and compare the mirror every n-th step only (1 = every step)
    pub mirror_every: usize,
}

impl Focus {
    pub fn base(property: &'static str) -> Focus {
        Focus {
            property,
            mix: [25, 20, 10, 20, 10, 6, 3, 6],
            ttl_pct: 40,
            avoid_put_on_unreadable_present: true,
            avoid_value_only_upsert_on_unreadable: true,
            avoid_raise_beyond_free: true,
            avoid_remove_ttl_underflow: true,
            avoid_ttl_add_overflow: true,
            later_pct: 0,
            verify_read_pct: 30,
            prefer: vec![],
            max_ttl_secs: 86_400 * 365,
            edge: false,
            check_admission: false,
            mirror: false,
            consumer_idle_pct: 0,
            rewind_pct: 0,
            admission_race: false,
            mirror_every: 1,
        }
    }
}

pub struct SeqDriver {
    pub focus: Focus,
    pub rng: Rng,
    pub model: Model,
    pub steps: usize,
    /// replay: follow this program instead of generating
    pub follow: Option<Vec<Op>>,
    queue: Vec<Op>,
    last_seq: u64,
    pub unowned: u64,
    pub owned_checks: u64,
    /// which (aspect) mismatches belong to the property, and how they are named
    pub own: fn(&Mis, &Op, &Model) -> Option<String>,
    pub states_hit: BTreeSet<(String, String)>,
    /// hook events of a `Tick` step, carried over to the `AwaitIdle(Sweeper)` step that judges them
    carry: Vec<Hook>,
    pre_est: PreEstimates,
    pub mirror: Option<Mirror>,
    mirror_seq: u64,
}

impl SeqDriver {
    pub fn new(focus: Focus, cfg: &Cfg, seed: u64, steps: usize, follow: Option<Vec<Op>>, own: fn(&Mis, &Op, &Model) -> Option<String>) -> SeqDriver {
        SeqDriver {
            focus,
            rng: Rng::new(seed),
            model: Model::new(cfg),
            steps,
            follow,
            queue: vec![],
            last_seq: 0,
            unowned: 0,
            owned_checks: 0,
            own,
            states_hit: BTreeSet::new(),
            carry: vec![],
            pre_est: PreEstimates::default(),
            mirror: None,
            mirror_seq: 0,
        }
    }

    fn pick_key(&mut self, want: &[KState]) -> u32 {
        let keys = self.model.cfg.keys;
        if !want.is_empty() && self.rng.chance(3, 4) {
            let cands: Vec<u32> = (0..keys).filter(|k| want.contains(&self.model.state(*k))).collect();
            if !cands.is_empty() {
                return *self.rng.pick(&cands);
            }
        }
        self.rng.below(keys as u64) as u32
    }

    fn gen_ttl(&mut self) -> Dur {
        if self.focus.edge && self.rng.chance(1, 2) {
            let max = std::time::Duration::MAX;
            let cands = [
                Dur { s: 0, n: 0 },
                Dur { s: 0, n: 1 },
                Dur { s: 0, n: 999_999_999 },
                Dur { s: 1, n: 0 },
                Dur { s: 86_400 * 365 * 100, n: 0 },
                Dur { s: i64::MAX as u64 - 2_000_000_000, n: 0 },
                Dur { s: i64::MAX as u64, n: 999_999_999 },
                Dur { s: max.as_secs() - 1, n: 0 },
                Dur { s: max.as_secs(), n: max.subsec_nanos() },
            ];
            for _ in 0..8 {
                let d = *self.rng.pick(&cands);
                if d.s <= self.focus.max_ttl_secs {
                    return d;
                }
            }
        }
        loop {
            let d = *self.rng.pick(&TTLS);
            if d.s <= self.focus.max_ttl_secs {
                return d;
            }
        }
    }

    fn gen_weight(&mut self) -> i64 {
        let limit = self.model.cfg.weight;
        if self.focus.edge && self.rng.chance(1, 3) {
            return *self.rng.pick(&[1i64, 2, (limit - 1).max(1), limit, limit.saturating_add(1), 1 << 62, i64::MAX - 1, i64::MAX]);
        }
        match self.rng.below(10) {
            0 => limit,
            1 => limit.saturating_add(1),
            2 => 1,
            3 => (limit / 2).max(1),
            4 => (self.model.free()).max(1),
            5 => (self.model.free().saturating_add(1)).max(1),
            _ => self.rng.range_i(1, (limit / 2).max(1)),
        }
    }

    fn generate(&mut self, step: usize) -> Option<Op> {
        if step >= self.steps {
            return None;
        }
        let f = self.focus.clone();
        let keys = self.model.cfg.keys;
        for _attempt in 0..20 {
            let which = self.rng.weighted(&f.mix);
            match which {
                0 => {
                    let prefer = f.prefer.clone();
                    let key = self.pick_key(&prefer);
                    let state = self.model.state(key);
                    let passed_over = self.model.keys.get(&key).map(|e| self.model.passed_over.contains(&e.id)).unwrap_or(false);
                    if f.avoid_put_on_unreadable_present && matches!(state, KState::ExpiredUnswept | KState::SoftDeleted) && !passed_over {
                        continue;
                    }
                    let ttl = if self.rng.chance(f.ttl_pct, 100) { Some(self.gen_ttl()) } else { None };
                    let weight = if self.rng.chance(1, 2) { Some(self.gen_weight()) } else { None };
                    return Some(Op::Put { key, val: token(0, step, key), weight, ttl, wait: Wait::Now });
                }
                1 => {
                    let prefer = f.prefer.clone();
                    let key = self.pick_key(&prefer);
                    let state = self.model.state(key);
                    let readable = state.readable();
                    let mut val = if !readable || self.rng.chance(3, 5) { Some(token(0, step, key)) } else { None };
                    let mut ttl = None;
                    let mut remove_ttl = false;
                    match self.rng.below(10) {
                        0..=3 => {}
                        4..=7 => ttl = Some(self.gen_ttl()),
                        _ => remove_ttl = true,
                    }
                    let mut weight = if self.rng.chance(2, 5) { Some(self.gen_weight()) } else { None };
                    if val.is_none() && weight.is_none() && ttl.is_none() && !remove_ttl {
                        val = Some(token(0, step, key));
                    }
                    let present = self.model.keys.contains_key(&key);
                    if f.avoid_value_only_upsert_on_unreadable && present && !readable && ttl.is_none() && !remove_ttl {
                        continue;
                    }
                    // predicted charged weight after the call
                    if present {
                        let existing_w = self.model.weight_of_key(key).unwrap_or(0);
                        let had_ttl = self.model.keys[&key].expiry.is_some();
                        let mut upd = weight.or_else(|| val.map(|v| weight_of(&self.model.cfg.weight_fn, key, v, ttl.is_some())));
                        if !had_ttl && ttl.is_some() {
                            if f.avoid_ttl_add_overflow && upd.is_none() && existing_w.checked_add(TTL_ENTRY).is_none() {
                                continue;
                            }
                            upd = upd.or(Some(existing_w.saturating_add(TTL_ENTRY)));
                        }
                        if had_ttl && remove_ttl {
                            upd = upd.or(Some(existing_w - TTL_ENTRY));
                        }
                        if let Some(w) = upd {
                            if f.avoid_remove_ttl_underflow && w <= 0 {
                                continue;
                            }
                            if w <= 0 {
                                // documented precondition of every other shape: positive weights
                                if !(had_ttl && remove_ttl && weight.is_none() && val.is_none()) {
                                    continue;
                                }
                            }
                            if f.avoid_raise_beyond_free && w.saturating_sub(existing_w) > self.model.free() {
                                // restate a weight that fits instead
                                if self.model.free().saturating_add(existing_w) >= 1 && (val.is_some() || ttl.is_some() || remove_ttl) {
                                    weight = Some(self.rng.range_i(1, self.model.free().saturating_add(existing_w).min(i64::MAX - 1)));
                                } else {
                                    continue;
                                }
                            }
                        }
                    }
                    let wait = if present && self.rng.chance(f.later_pct, 100) { Wait::Later } else { Wait::Now };
                    let op = Op::Upsert { key, val, weight, ttl, remove_ttl, wait };
                    if wait == Wait::Later {
                        let kind = *self.rng.pick(&ALL_READS);
                        self.queue.push(Op::AwaitAll);
                        self.queue.push(Op::Read { kind, keys: vec![key] });
                    }
                    return Some(op);
                }
                2 => {
                    let key = self.pick_key(&[KState::Live, KState::LiveTtl, KState::ExpiredUnswept]);
                    let wait = if self.model.keys.contains_key(&key) && self.rng.chance(f.later_pct, 100) { Wait::Later } else { Wait::Now };
                    if wait == Wait::Later {
                        let kind = *self.rng.pick(&ALL_READS);
                        self.queue.push(Op::AwaitAll);
                        self.queue.push(Op::Read { kind, keys: vec![key] });
                    }
                    return Some(Op::Delete { key, wait });
                }
                3 => {
                    return Some(crate::gen::gen_read(&mut self.rng, keys));
                }
                4 => {
                    if f.rewind_pct > 0 && self.rng.chance(f.rewind_pct, 100) {
                        let d = *self.rng.pick(&[Dur { s: 0, n: 1 }, Dur { s: 0, n: 500_000_000 }, Dur { s: 1, n: 0 }, Dur { s: 3, n: 0 }, Dur { s: 3600, n: 0 }]);
                        return Some(Op::Rewind(d));
                    }
                    // aim at boundaries of existing expiries half of the time
                    let exps: Vec<Dur> = self.model.keys.values().filter_map(|e| e.expiry).filter(|e| *e >= self.model.now).collect();
                    if !exps.is_empty() && self.rng.chance(1, 2) {
                        let e = *self.rng.pick(&exps);
                        let gap = e.to_std() - self.model.now.to_std();
                        let d = match self.rng.below(3) {
                            0 => gap,
                            1 => gap + std::time::Duration::from_nanos(1),
                            _ => gap.saturating_sub(std::time::Duration::from_nanos(1)),
                        };
                        if d.as_nanos() > 0 {
                            return Some(Op::Advance(Dur::from_std(d)));
                        }
                    }
                    return Some(Op::Advance(*self.rng.pick(&ADVANCES)));
                }
                5 => {
                    self.queue.push(Op::AwaitIdle(RoleName::Sweeper));
                    return Some(Op::Tick);
                }
                6 => return Some(Op::Rotate),
                _ => {
                    return Some(if self.rng.chance(1, 2) { Op::WeightUsed } else { Op::Stats });
                }
            }
        }
        Some(crate::gen::gen_read(&mut self.rng, keys))
    }
}

impl Online for SeqDriver {
    fn start(&mut self, cache: &Cache) {
        if self.focus.mirror {
            self.mirror = Some(Mirror::new(cache, self.model.cfg.counters));
            self.mirror_seq = exec::seq();
        }
    }

    fn before_op(&mut self, op: &Op, cache: &Cache) {
        self.pre_est = PreEstimates::default();
        if !self.focus.check_admission {
            return;
        }
        if let Op::Put { key, .. } | Op::Upsert { key, .. } = op {
            if !self.focus.admission_race {
                // estimates are only comparable when nothing is in flight towards the sketch
                simsync::sim::await_idle(simsync::sim::Role::Consumer);
            } else {
                self.pre_est.total_before = cache.verif_sketch().total_increments;
            }
            for (id, (k, _)) in &self.model.charged {
                let h = self.model.cfg.hash_of(*k);
                self.pre_est.by_id.insert(*id, cache.verif_estimate(h));
                self.pre_est.hashes.insert(*id, h);
            }
            self.pre_est.incoming_hash = self.model.cfg.hash_of(*key);
            self.pre_est.incoming = Some(cache.verif_estimate(self.pre_est.incoming_hash));
        }
    }

    fn next_op(&mut self, step: usize) -> Option<Op> {
        if let Some(prog) = &self.follow {
            return prog.get(step).cloned();
        }
        if let Some(op) = self.queue.pop() {
            return Some(op);
        }
        if self.focus.consumer_idle_pct > 0 && self.rng.chance(self.focus.consumer_idle_pct, 100) {
            return Some(Op::AwaitIdle(RoleName::Consumer));
        }
        // quiesce the consumer now and then so that estimates are up to date (C06 / C14)
        self.generate(step)
    }

    fn after_op(&mut self, op: &Op, _step: usize, cache: &Cache) {
        // everything logged since the previous step was judged (background threads may have logged
        // events while that step's own observations were being taken)
        let items = exec::items_since(self.last_seq);
        self.last_seq = exec::seq();
        let mut st = None;
        let mut vals: Vec<Option<u64>> = vec![];
        let mut events = vec![];
        let mut weight_seen = None;
        let mut weight_after_ack = None;
        for it in &items {
            match it {
                Item::AckObserved { st: s, .. } => st = Some(*s),
                Item::Return { res: Res::Read { vals: v, .. }, .. } => vals = v.clone(),
                Item::Return { res: Res::Weight(w), .. } => weight_seen = Some(*w),
                Item::WeightAfterAck { weight, .. } => weight_after_ack = Some(*weight),
                Item::Hook { ev, .. } => events.push(ev.clone()),
                _ => {}
            }
        }
        if let Some(k) = op.key() {
            self.states_hit.insert((crate::oracle::opname(op).to_string(), self.model.state(k).name().to_string()));
        }
        if st == Some(St::Pending) {
            // the acknowledgement yielded the placeholder status (C12's business): this step cannot be
            // judged; adopt whatever the cache looks like now and carry on
            simsync::sim::await_idle(simsync::sim::Role::Worker);
            let o = exec::observe(cache, "step");
            self.model.pending.clear();
            self.model.resync(&o);
            if let Some(k) = op.key() {
                if let Some(e) = self.model.keys.get_mut(&k) {
                    e.val = None;
                }
            }
            exec::probe_run("seq.step_skipped_status_pending");
            return;
        }
        let pre = self.model.clone();
        let mut mis = vec![];
        if matches!(op, Op::Tick) {
            // the sweeper may already run before this step's Return is logged
            self.carry.extend(events.drain(..));
        } else if matches!(op, Op::AwaitIdle(RoleName::Sweeper)) {
            let mut all = std::mem::take(&mut self.carry);
            all.extend(events.drain(..));
            events = all;
        }
        self.model.apply(op, st, &vals, &events, &mut mis);
        if self.focus.check_admission {
            let put_like = match op {
                Op::Put { key, val, weight, ttl, .. } if !pre.keys.contains_key(key) => {
                    Some(weight.unwrap_or_else(|| weight_of(&pre.cfg.weight_fn, *key, *val, ttl.is_some())))
                }
                Op::Upsert { key, val: Some(v), weight, ttl, .. } if !pre.keys.contains_key(key) => {
                    Some(weight.unwrap_or_else(|| weight_of(&pre.cfg.weight_fn, *key, *v, ttl.is_some())))
                }
                _ => None,
            };
            if let Some(w) = put_like {
                if self.focus.admission_race {
                    // upper ends: estimates now, with everything handed over applied
                    simsync::sim::await_idle(simsync::sim::Role::Consumer);
                    let applied: u64 = events
                        .iter()
                        .map(|e| if let Hook::BatchApplied { hashes } = e { hashes.len() as u64 } else { 0 })
                        .sum();
                    let total_after = cache.verif_sketch().total_increments;
                    if total_after == self.pre_est.total_before + applied {
                        // no ageing in between: every counter only grew, so any estimate the decision
                        // used lies between the two readings
                        let mut hi = BTreeMap::new();
                        for (id, h) in &self.pre_est.hashes {
                            hi.insert(*id, cache.verif_estimate(*h));
                        }
                        self.pre_est.hi_by_id = Some(hi);
                        self.pre_est.hi_incoming = Some(cache.verif_estimate(self.pre_est.incoming_hash));
                        if applied > 0 {
                            exec::probe_run("c06.batch_applied_during_decision");
                        }
                    } else {
                        // the sketch aged during the decision: estimates are not comparable
                        self.pre_est.by_id.clear();
                        self.pre_est.incoming = None;
                    }
                }
                check_admission(w, &events, &pre, &self.pre_est, st, &mut mis);
            }
        }
        if self.mirror.is_some() && (_step + 1) % self.focus.mirror_every.max(1) == 0 {
            simsync::sim::await_idle(simsync::sim::Role::Consumer);
            let fresh = exec::items_since(self.mirror_seq);
            self.mirror_seq = exec::seq();
            let keys = self.model.cfg.keys;
            let cfgc = self.model.cfg.clone();
            let m = self.mirror.as_mut().unwrap();
            for it in &fresh {
                if let Item::Hook { ev: Hook::BatchApplied { hashes }, .. } = it {
                    m.batches += 1;
                    for h in hashes {
                        m.access(*h);
                    }
                }
            }
            let mut probes: Vec<u64> = (0..keys).map(|k| cfgc.hash_of(k)).collect();
            let extra: Vec<u64> = probes.iter().flat_map(|h| [h ^ 1, h.wrapping_add(1), h.wrapping_add(m.counters)]).collect();
            probes.extend(extra);
            probes.sort();
            probes.dedup();
            for (class, msg) in m.compare(cache, &probes) {
                mis.push(Mis { aspect: "sketch", class, ctx: format!("counters={}", cfgc.counters), msg });
            }
        }
        if let Some(w) = weight_after_ack {
            // read through the public API the moment the acknowledgement resolved
            if w != self.model.total && self.model.pending.is_empty() && !self.model.tick_pending {
                mis.push(Mis {
                    aspect: "weight_used",
                    class: "not-applied-at-acknowledgement".into(),
                    ctx: String::new(),
                    msg: format!("total_weight_used() read right after the acknowledgement resolved = {}, model {}", w, self.model.total),
                });
            }
        }
        if let Some(w) = weight_seen {
            if w != self.model.total && self.model.pending.is_empty() {
                mis.push(Mis { aspect: "weight_used", class: "total-mismatch".into(), ctx: String::new(), msg: format!("total_weight_used() = {}, model {}", w, self.model.total) });
            }
        }
        // harness sanity: the model's clock mirrors the simulator's
        debug_assert_eq!(self.model.now, Dur::from_std(simsync::sim::now()));
        if self.model.pending.is_empty() && !self.model.tick_pending {
            // everything issued has been acknowledged and no sweep is owed: quiescent
            simsync::sim::await_idle(simsync::sim::Role::Worker);
            let o = exec::observe(cache, "step");
            self.model.compare(&o, &mut mis);
            // "every accepted put leaves the total at or below the limit" -- also when the total was
            // already over the limit before it (a state only weight-raising upserts produce)
            if matches!(op, Op::Put { .. }) && st == Some(St::Accepted) && pre.bad_limit && o.weight_used > self.model.cfg.weight {
                mis.push(Mis {
                    aspect: "limit",
                    class: "over-limit-after-accepted-put".into(),
                    ctx: String::new(),
                    msg: format!("the put was acknowledged Accepted and leaves total_weight_used() = {} with limit {}", o.weight_used, self.model.cfg.weight),
                });
            }
            if matches!(op, Op::AwaitIdle(RoleName::Sweeper) | Op::Rotate) {
                self.model.sweep_semantics(&pre, &o, matches!(op, Op::Rotate), &mut mis);
            }
            if matches!(op, Op::Rotate) {
                for (k, id, expiry, soft) in &o.store {
                    if let Some(x) = expiry {
                        if pre.now >= *x && !*soft && pre.keys.get(k).map(|e| e.id == *id).unwrap_or(false) {
                            self.model.passed_over.insert(*id);
                        }
                    }
                }
            }
            self.model.resync(&o);
        }
        for m in mis {
            match (self.own)(&m, op, &pre) {
                Some(sig) => {
                    exec::violation(self.focus.property, sig, format!("after `{}`: {}", op.short(), m.msg));
                }
                None => {
                    self.unowned += 1;
                    simsync::sim::probe("seq.unowned_mismatch");
                    if std::env::var("SIM_DEBUG_UNOWNED").is_ok() {
                        eprintln!("UNOWNED [{}] {}/{} {} after `{}`: {}", self.focus.property, m.aspect, m.class, m.ctx, op.short(), m.msg);
                    }
                }
            }
        }
        self.owned_checks += 1;
    }

    fn finish(&mut self, _cache: &Cache) {
        for (op, st) in &self.states_hit {
            let _ = (op, st);
        }
    }
}

// ------------------------------------------------------------------------------------------------
// C06: the admission decision, judged from the decision events against the TinyLFU rule

#[derive(Default, Clone, Debug)]
pub struct PreEstimates {
    /// key id -> estimate read through the accessor with the consumer idle, just before the put
    pub by_id: BTreeMap<u64, u8>,
    pub incoming: Option<u8>,
    /// racing mode: upper ends of the intervals (estimates after the put, consumer idle); None = exact
    pub hi_by_id: Option<BTreeMap<u64, u8>>,
    pub hi_incoming: Option<u8>,
    /// accesses recorded since the last ageing, before the put (racing mode)
    pub total_before: u64,
    pub incoming_hash: u64,
    pub hashes: BTreeMap<u64, u64>,
}

pub fn check_admission(w: i64, all_events: &[Hook], pre: &Model, est: &PreEstimates, status: Option<St>, out: &mut Vec<Mis>) {
    // only the worker's decision events, in order (the consumer and the sweeper may log in between)
    let events: Vec<Hook> = all_events
        .iter()
        .filter(|e| matches!(e, Hook::AdmissionBegin { .. } | Hook::CreateSpace { .. } | Hook::Victim { .. } | Hook::Evicted { .. } | Hook::SampleEmpty))
        .cloned()
        .collect();
    let events = &events[..];
    let limit = pre.cfg.weight;
    let mut push = |class: &str, msg: String| {
        out.push(Mis { aspect: "admission", class: class.to_string(), ctx: String::new(), msg });
    };
    let begin = events.iter().find_map(|e| match e {
        Hook::AdmissionBegin { space_left, fits, weight, max_weight, .. } => Some((*space_left, *fits, *weight, *max_weight)),
        _ => None,
    });
    let (space_left, fits, ev_w, ev_max) = match begin {
        Some(b) => b,
        None => return, // answered before admission (too heavy, or key exists)
    };
    if ev_w != w || ev_max != limit {
        push("event-vs-observed", format!("admission saw weight {} / max {}, the call gave weight {} to a cache of {}", ev_w, ev_max, w, limit));
    }
    if space_left != pre.free() {
        push("event-vs-observed", format!("admission computed free space {}, observed limit - total_weight_used() = {}", space_left, pre.free()));
    }
    if fits != (pre.free() >= w) {
        push("fit-test-wrong", format!("weight {} vs free space {}: admission decided fits = {}", w, pre.free(), fits));
    }
    if fits {
        return; // fast path; status and "nothing evicted" are checked by the model
    }
    let incoming = events.iter().find_map(|e| match e {
        Hook::CreateSpace { incoming, .. } => Some(*incoming),
        _ => None,
    });
    let incoming = match incoming {
        Some(i) => i,
        None => {
            push("no-create-space", "free space insufficient but the eviction loop was not entered".to_string());
            return;
        }
    };
    if let Some(p) = est.incoming {
        let hi = est.hi_incoming.unwrap_or(p);
        if incoming < p.min(hi) || incoming > p.max(hi) {
            push("event-vs-observed", format!("incoming key estimate used {} but estimate() was {} just before and {} just after the decision", incoming, p, hi));
        }
    }
    crate::exec::probe_run("c06.create_space_path");
    let mut charged: BTreeMap<u64, i64> = pre.charged.iter().map(|(id, (_, w))| (*id, *w)).collect();
    let mut free = pre.free();
    let mut evicted = 0;
    let mut rejected_by_rule = false;
    let mut i = 0;
    while i < events.len() {
        if let Hook::Victim { sample, victim, space } = &events[i] {
            let ids: BTreeSet<u64> = sample.iter().map(|s| s.0).collect();
            if ids.len() != sample.len() {
                push("sample-malformed", format!("sample holds duplicates: {:?}", sample));
            }
            if let Some(stranger) = sample.iter().find(|s| !charged.contains_key(&s.0)) {
                push("sample-malformed", format!("sampled id {} is not charged (charged ids {:?})", stranger.0, charged.keys().collect::<Vec<_>>()));
            }
            // the first sample of a decision holds five keys, or every charged key if there are fewer
            // (later ones shrink as the iteration over the weight table runs out)
            if evicted == 0 && sample.len() < charged.len().min(5) {
                push("sample-smaller-than-available", format!("the first sample holds {} keys although {} are charged", sample.len(), charged.len()));
            }
            if sample.is_empty() {
                push("sample-malformed", "a victim was taken from an empty sample".to_string());
            }
            if sample.len() < 5 {
                crate::exec::probe_run("c06.sample_smaller_than_five");
            }
            for (id, sw, f) in sample {
                if let Some(p) = est.by_id.get(id) {
                    let hi = est.hi_by_id.as_ref().and_then(|m| m.get(id)).copied().unwrap_or(*p);
                    if *f < (*p).min(hi) || *f > (*p).max(hi) {
                        push("event-vs-observed", format!("id {} sampled with estimate {} but estimate() was {} just before and {} just after the decision", id, f, p, hi));
                    }
                }
                if let Some(cw) = charged.get(id) {
                    if cw != sw {
                        push("event-vs-observed", format!("id {} sampled with weight {} but is charged {}", id, sw, cw));
                    }
                }
                if *f >= 15 {
                    crate::exec::probe_run("c06.saturated_estimate_in_sample");
                }
            }
            if *space != free {
                push("event-vs-observed", format!("loop saw {} free, model {} after {} evictions", space, free, evicted));
            }
            if *space >= w {
                push("loop-overran", format!("eviction loop took a victim although {} free already suffices for weight {}", space, w));
            }
            let min_f = sample.iter().map(|s| s.2).min().unwrap_or(0);
            if !sample.iter().any(|s| s.0 == victim.0) {
                push("victim-not-in-sample", format!("victim {:?} is not in the sample {:?}", victim, sample));
            }
            if victim.2 != min_f {
                push("victim-not-min", format!("victim {:?} but the sample {:?} holds a lower estimate {}", victim, sample, min_f));
            }
            let tie_heavier = sample.iter().filter(|s| s.2 == min_f).map(|s| s.1).max().unwrap_or(0);
            if sample.iter().filter(|s| s.2 == min_f).count() > 1 {
                crate::exec::probe_run("c06.tie_on_minimum_estimate");
                if victim.1 == tie_heavier {
                    crate::exec::probe_run("c06.tie_broken_heavier_first");
                }
            }
            let was_evicted = matches!(events.get(i + 1), Some(Hook::Evicted { id }) if *id == victim.0);
            let should_evict = victim.2 <= incoming;
            if victim.2 == incoming {
                crate::exec::probe_run("c06.victim_estimate_equals_incoming");
            }
            if was_evicted && !should_evict {
                push("evicted-hotter", format!("victim {:?} has a higher estimate than the incoming key ({}) yet it was evicted", victim, incoming));
            }
            if !was_evicted && should_evict {
                push("kept-colder-and-rejected", format!("victim {:?} does not exceed the incoming estimate {} yet it was kept", victim, incoming));
            }
            if was_evicted {
                evicted += 1;
                if let Some(cw) = charged.remove(&victim.0) {
                    free += cw;
                }
                i += 1;
            } else {
                rejected_by_rule = true;
            }
        }
        i += 1;
    }
    if evicted >= 2 {
        crate::exec::probe_run("c06.multi_victim_eviction");
    }
    if evicted >= 1 && status == Some(St::RejNoSpace) {
        crate::exec::probe_run("c06.partial_eviction_then_reject");
    }
    let sample_ran_dry = events.iter().any(|e| matches!(e, Hook::SampleEmpty));
    if status == Some(St::RejNoSpace) && !rejected_by_rule && !sample_ran_dry {
        push(
            "rejected-without-cause",
            format!("weight {} rejected (not enough space) after {} eviction(s) although no hotter victim was met and the sample did not run dry ({} keys still charged)", w, evicted, charged.len()),
        );
    }
    let expect = if rejected_by_rule {
        St::RejNoSpace
    } else if free >= w {
        St::Accepted
    } else {
        St::RejNoSpace
    };
    if let Some(s) = status {
        if s != expect {
            push("result-mismatch", format!("decision events imply {:?} (free {} for weight {}, rejected by rule: {}) but the put was acknowledged {:?}", expect, free, w, rejected_by_rule, s));
        }
    }
}

// ------------------------------------------------------------------------------------------------
// C14: naive, unpacked mirror of the TinyLFU sketch

pub struct Mirror {
    pub seeds: Vec<u64>,
    pub counters: u64,
    pub rows: Vec<Vec<u8>>,
    pub bloom: bloomfilter::Bloom<u64>,
    pub total: u64,
    pub reset_at: u64,
    /// per hash: accesses recorded in the current ageing window
    pub window: BTreeMap<u64, u64>,
    pub resets: u64,
    pub batches: u64,
    pub saturated: bool,
    pub byte_values_seen: BTreeSet<u8>,
}

impl Mirror {
    pub fn new(cache: &Cache, cfg_counters: u64) -> Mirror {
        let sk = cache.verif_sketch();
        Mirror {
            seeds: sk.seeds.clone(),
            counters: sk.total_counters,
            rows: (0..sk.seeds.len()).map(|_| vec![0u8; sk.total_counters as usize]).collect(),
            bloom: bloomfilter::Bloom::new_for_fp_rate(cfg_counters as usize, 0.01),
            total: 0,
            // "after exactly the configured number of recorded accesses": the threshold is the
            // configuration's, not whatever the implementation stored
            reset_at: cfg_counters,
            window: BTreeMap::new(),
            resets: 0,
            batches: 0,
            saturated: false,
            byte_values_seen: BTreeSet::new(),
        }
    }
    pub fn access(&mut self, h: u64) {
        if !self.bloom.check(&h) {
            self.bloom.set(&h);
        } else {
            for (i, seed) in self.seeds.iter().enumerate() {
                let idx = ((h ^ seed) % self.counters) as usize;
                if self.rows[i][idx] < 15 {
                    self.rows[i][idx] += 1;
                } else {
                    self.saturated = true;
                }
            }
        }
        *self.window.entry(h).or_insert(0) += 1;
        self.total += 1;
        if self.total >= self.reset_at {
            self.total = 0;
            self.resets += 1;
            for r in self.rows.iter_mut() {
                for c in r.iter_mut() {
                    *c >>= 1;
                }
            }
            self.bloom.clear();
            self.window.clear();
        }
    }
    pub fn estimate(&self, h: u64) -> u8 {
        let mut m = u8::MAX;
        for (i, seed) in self.seeds.iter().enumerate() {
            let idx = ((h ^ seed) % self.counters) as usize;
            m = m.min(self.rows[i][idx]);
        }
        m + if self.bloom.check(&h) { 1 } else { 0 }
    }
    /// Compare with the cache's sketch (consumer idle). Returns mismatches as (class, message).
    pub fn compare(&mut self, cache: &Cache, probes: &[u64]) -> Vec<(String, String)> {
        let mut out = vec![];
        let sk = cache.verif_sketch();
        if sk.total_increments != self.total {
            out.push(("aged-at-wrong-count".to_string(), format!("recorded accesses since last ageing: cache {}, mirror {} (threshold {})", sk.total_increments, self.total, self.reset_at)));
        }
        for (i, row) in sk.rows.iter().enumerate() {
            for b in row {
                self.byte_values_seen.insert(*b);
            }
            for j in 0..self.counters as usize {
                let byte = row.get(j / 2).copied().unwrap_or(0);
                let got = (byte >> ((j & 1) * 4)) & 0x0f;
                if got != self.rows[i][j] {
                    out.push((
                        "mirror-mismatch".to_string(),
                        format!("row {} counter {}: cache {}, mirror {} (packed byte {:#04x})", i, j, got, self.rows[i][j], byte),
                    ));
                    return out;
                }
            }
        }
        for h in probes {
            let got = cache.verif_estimate(*h);
            let exp = self.estimate(*h);
            if got != exp {
                out.push(("estimate-mismatch".to_string(), format!("estimate({}) = {}, mirror {}", h, got, exp)));
            }
            if got > 16 {
                out.push(("wrapped".to_string(), format!("estimate({}) = {} exceeds the sketch maximum", h, got)));
            }
            let recorded = self.window.get(h).copied().unwrap_or(0);
            if (got as u64) < recorded.min(15) {
                out.push(("under-count".to_string(), format!("estimate({}) = {} but {} accesses were recorded in this ageing window", h, got, recorded)));
            }
            if cache.verif_door_keeper_has(*h) != self.bloom.check(h) {
                out.push(("doorkeeper-mismatch".to_string(), format!("first-access filter disagrees for hash {}", h)));
            }
        }
        out
    }
}
