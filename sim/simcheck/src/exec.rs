//! Executes one scenario inside a shuttle execution: builds the real cache on the simulated clock,
//! runs the caller threads' programs against its public API, records the history, performs the
//! epilogue (await every acknowledgement, quiesce, observe, agreement reads) and an orderly
//! teardown so that the worker, sweeper and consumer threads all terminate.
use crate::hist::*;
use crate::scenario::*;
use crate::sched::{self, Phase};
use simsync::sim::{self, Role};
use std::cell::RefCell;
use std::collections::HashMap;
use std::future::Future;
use std::pin::Pin;
use std::sync::atomic::{AtomicU32, Ordering as StdOrdering};
use std::sync::Arc;
use std::task::{Context, Poll, Wake, Waker};
use std::time::{Duration, SystemTime, UNIX_EPOCH};
use tinylfu_cached::cache::cached::CacheD;
use tinylfu_cached::cache::clock::Clock;
use tinylfu_cached::cache::command::acknowledgement::CommandAcknowledgement;
use tinylfu_cached::cache::config::ConfigBuilder;
use tinylfu_cached::cache::put_or_update::PutOrUpdateRequestBuilder;
use tinylfu_cached::cache::verif;

pub type Cache = CacheD<u32, u64>;
/// simulated clocks beyond this (year 9999) are refused by `Advance`: the harness's own clock must
/// stay representable, whatever time-to-live values the scenario plays with
pub const MAX_CLOCK_SECS: u64 = 253_402_300_800;
pub type Ack = Arc<CommandAcknowledgement>;

#[derive(Clone)]
pub struct SimClock;
impl Clock for SimClock {
    fn now(&self) -> SystemTime {
        UNIX_EPOCH + sim::now()
    }
}

enum Raw {
    I(Item),
    H { role: String, ev: verif::Event },
}

/// A violation found while the run was still going (online oracles) or afterwards.
#[derive(Clone, Debug, serde::Serialize, serde::Deserialize, PartialEq)]
pub struct Violation {
    pub property: String,
    /// class/context: what minimisation preserves and known findings are matched on
    pub signature: String,
    pub message: String,
    /// index into the history of the first event that shows it
    pub event: u64,
}

#[derive(Default)]
pub struct RunState {
    log: Vec<Raw>,
    ack_ids: HashMap<usize, AckId>,
    keep: Vec<Ack>,
    pub violations: Vec<Violation>,
    pub recorded_ops: Vec<Op>,
    wakers: Vec<Arc<CountWaker>>,
    pub shutdown_called: bool,
    /// kept acknowledgements in the order their calls returned (addressed by `Poll{slot}`)
    global_slots: Vec<(AckId, Ack)>,
}

pub struct PanicInfo {
    pub message: String,
    pub file: String,
    pub line: u32,
    pub task: Option<usize>,
    pub role: String,
}

thread_local! {
    /// the first panic of the current run, recorded by the process-wide panic hook
    pub static PANIC: RefCell<Option<PanicInfo>> = RefCell::new(None);
    static RUN: RefCell<RunState> = RefCell::new(RunState::default());
    /// set while a call is running whose documented-precondition panic the harness catches
    pub static PRECONDITION_GUARD: std::cell::Cell<bool> = std::cell::Cell::new(false);
}

pub fn log(item: Item) -> u64 {
    RUN.with(|r| {
        let mut r = r.borrow_mut();
        r.log.push(Raw::I(item));
        (r.log.len() - 1) as u64
    })
}

/// The items logged from sequence number `from` on (hook events converted with the acknowledgement
/// identities known so far).
pub fn items_since(from: u64) -> Vec<Item> {
    RUN.with(|r| {
        let r = r.borrow();
        let ids = &r.ack_ids;
        let resolve = |addr: usize| ids.get(&addr).copied().unwrap_or(NOBODY);
        r.log[(from as usize).min(r.log.len())..]
            .iter()
            .map(|raw| match raw {
                Raw::I(i) => i.clone(),
                Raw::H { role, ev } => Item::Hook { role: role.clone(), ev: convert_hook(ev, &resolve) },
            })
            .collect()
    })
}

/// Reach probe recorded by harness-side checkers (goes into the run's probe table).
pub fn probe_run(name: &'static str) {
    sim::probe(name);
}

pub fn seq() -> u64 {
    RUN.with(|r| r.borrow().log.len() as u64)
}

pub fn violation(property: &str, signature: String, message: String) {
    RUN.with(|r| {
        let mut r = r.borrow_mut();
        let event = r.log.len() as u64;
        r.violations.push(Violation { property: property.to_string(), signature, message, event });
    })
}

thread_local! {
    static SINGLE_CALLER: std::cell::Cell<bool> = std::cell::Cell::new(false);
}

fn single_caller() -> bool {
    SINGLE_CALLER.with(|c| c.get())
}

pub fn shutdown_was_called() -> bool {
    RUN.with(|r| r.try_borrow().map(|r| r.shutdown_called).unwrap_or(false))
}

pub fn has_violation() -> bool {
    RUN.with(|r| !r.borrow().violations.is_empty())
}

fn register_ack(ack: &Ack, id: AckId) {
    RUN.with(|r| {
        let mut r = r.borrow_mut();
        r.ack_ids.insert(Arc::as_ptr(ack) as usize, id);
        r.keep.push(ack.clone());
    })
}

struct CountWaker {
    id: usize,
    count: AtomicU32,
}
impl Wake for CountWaker {
    fn wake(self: Arc<Self>) {
        self.wake_by_ref()
    }
    fn wake_by_ref(self: &Arc<Self>) {
        self.count.fetch_add(1, StdOrdering::SeqCst);
        log(Item::Woken { waker: self.id });
    }
}

fn counting_waker(id: usize) -> Waker {
    let cw = RUN.with(|r| {
        let mut r = r.borrow_mut();
        while r.wakers.len() <= id {
            let n = r.wakers.len();
            r.wakers.push(Arc::new(CountWaker { id: n, count: AtomicU32::new(0) }));
        }
        r.wakers[id].clone()
    });
    Waker::from(cw)
}

pub fn wake_count(id: usize) -> u32 {
    RUN.with(|r| r.borrow().wakers.get(id).map(|w| w.count.load(StdOrdering::SeqCst)).unwrap_or(0))
}

/// Everything a finished run hands to the oracles.
pub struct RunOutput {
    pub log: Vec<Item>,
    pub violations: Vec<Violation>,
    pub recorded_ops: Vec<Op>,
    pub probes: std::collections::BTreeMap<&'static str, u64>,
    pub chans: Vec<ChanStat>,
    pub completed: bool,
}

#[derive(Clone, Debug, Default)]
pub struct ChanStat {
    pub role: &'static str,
    pub cap: usize,
    pub sent: u64,
    pub send_blocked: u64,
    pub try_send_full: u64,
    pub max_queued: usize,
}

thread_local! {
    static CHAN_STATS: RefCell<Vec<ChanStat>> = RefCell::new(Vec::new());
    static PROBES: RefCell<std::collections::BTreeMap<&'static str, u64>> = RefCell::new(Default::default());
    static COMPLETED: std::cell::Cell<bool> = std::cell::Cell::new(false);
}

/// Take the recorded run out of the thread-local state (called by the driver after the execution
/// finished, or from the failure path after a panic / deadlock).
pub fn take_output() -> RunOutput {
    let st = RUN.with(|r| std::mem::take(&mut *r.borrow_mut()));
    let ids = st.ack_ids;
    let resolve = |addr: usize| ids.get(&addr).copied().unwrap_or(NOBODY);
    let log = st
        .log
        .into_iter()
        .map(|raw| match raw {
            Raw::I(i) => i,
            Raw::H { role, ev } => Item::Hook { role, ev: convert_hook(&ev, &resolve) },
        })
        .collect();
    // keep-alive acknowledgements are plain std Arcs over shim mutexes: dropping them outside an
    // execution is harmless only if no scheduling point is reached; they hold no guards.
    std::mem::forget(st.keep);
    RunOutput {
        log,
        violations: st.violations,
        recorded_ops: st.recorded_ops,
        probes: PROBES.with(|p| std::mem::take(&mut *p.borrow_mut())),
        chans: CHAN_STATS.with(|c| std::mem::take(&mut *c.borrow_mut())),
        completed: COMPLETED.with(|c| c.replace(false)),
    }
}

pub fn build_cache(cfg: &Cfg) -> Cache {
    let mode = cfg.hash;
    let mut b = ConfigBuilder::new(cfg.counters, cfg.capacity, cfg.weight)
        .clock(Box::new(SimClock))
        .shards(cfg.shards)
        .command_buffer_size(cfg.queue)
        .access_pool_size(cfg.pool)
        .access_buffer_size(cfg.buffer)
        .ttl_tick_duration(Duration::from_secs(5))
        .key_hash_fn(Box::new(move |k: &u32| hash_key(mode, *k)));
    match &cfg.weight_fn {
        WeightFn::Default => {}
        other => {
            let f = other.clone();
            b = b.weight_calculation_fn(Box::new(move |k: &u32, v: &u64, ttl: bool| weight_of(&f, *k, *v, ttl)));
        }
    }
    CacheD::new(b.build())
}

/// Online driver (SEQ / EDGE families): draws the next operation from the reference model's state
/// and checks the cache against the model after every operation.
pub trait Online {
    /// Called once right after the cache was built (the getrandom stream has been re-seeded to the
    /// value it had before `CacheD::new`, so an identically keyed doorkeeper mirror can be built).
    fn start(&mut self, _cache: &Cache) {}
    /// `None` ends the program.
    fn next_op(&mut self, step: usize) -> Option<Op>;
    /// Called right before the operation is executed (extra observations, e.g. estimates).
    fn before_op(&mut self, _op: &Op, _cache: &Cache) {}
    /// Called after the operation (and its await) completed; may use the cache for extra
    /// observations (reads, snapshots) and reports violations through `exec::violation`.
    fn after_op(&mut self, op: &Op, step: usize, cache: &Cache);
    /// Called once at the end (epilogue done, cache quiescent).
    fn finish(&mut self, _cache: &Cache) {}
}

pub struct ThreadCtx {
    pub t: usize,
    pub pending: Vec<(usize, Ack)>,
    /// acknowledgements addressable by `Poll{slot}`: every write with Wait::Later / Never, in order
    pub slots: Vec<(usize, Ack)>,
}

fn now_dur() -> Dur {
    Dur::from_std(sim::now())
}

/// waker id logged for polls made by `block_on` with the simulated task's own waker
pub const TASK_WAKER: usize = usize::MAX;

pub fn await_ack(ack: &Ack, id: AckId, by: usize) -> St {
    // count pending polls by polling by hand under shuttle's own waker via block_on
    struct Counting<'a> {
        ack: &'a Ack,
        pending_polls: u32,
        id: AckId,
        by: usize,
    }
    impl Future for Counting<'_> {
        type Output = (St, u32);
        fn poll(mut self: Pin<&mut Self>, cx: &mut Context<'_>) -> Poll<Self::Output> {
            let mut h = self.ack.handle();
            match Pin::new(&mut h).poll(cx) {
                Poll::Ready(s) => {
                    log(Item::Polled { ack: self.id, by: self.by, waker: TASK_WAKER, res: Some(St::from(s)) });
                    Poll::Ready((St::from(s), self.pending_polls))
                }
                Poll::Pending => {
                    log(Item::Polled { ack: self.id, by: self.by, waker: TASK_WAKER, res: None });
                    self.pending_polls += 1;
                    Poll::Pending
                }
            }
        }
    }
    let (st, polls) = shuttle::future::block_on(Counting { ack, pending_polls: 0, id, by });
    log(Item::AckObserved { ack: id, by, st, polls });
    st
}

fn poll_once(ack: &Ack, waker: &Waker) -> Option<St> {
    let mut cx = Context::from_waker(waker);
    let mut h = ack.handle();
    match Pin::new(&mut h).poll(&mut cx) {
        Poll::Ready(s) => Some(St::from(s)),
        Poll::Pending => None,
    }
}

pub fn do_read(cache: &Cache, kind: ReadKind, keys: &[u32]) -> (Vec<Option<u64>>, bool) {
    match kind {
        ReadKind::Get => (keys.iter().map(|k| cache.get(k)).collect(), true),
        ReadKind::GetRef => (
            keys.iter().map(|k| cache.get_ref(k).map(|r| *r.value().value_ref())).collect(),
            true,
        ),
        ReadKind::MapGet => (keys.iter().map(|k| cache.map_get(k, |v| !v).map(|v| !v)).collect(), true),
        ReadKind::MapGetRef => (
            keys.iter().map(|k| cache.map_get_ref(k, |sv| !*sv.value_ref()).map(|v| !v)).collect(),
            true,
        ),
        ReadKind::MultiGet => {
            let refs: Vec<&u32> = keys.iter().collect();
            let m = cache.multi_get(refs);
            let distinct: std::collections::BTreeSet<&u32> = keys.iter().collect();
            let complete = keys.iter().all(|k| m.contains_key(k)) && m.len() == distinct.len();
            (keys.iter().map(|k| m.get(k).cloned().flatten()).collect(), complete)
        }
        ReadKind::MultiGetIter => {
            let refs: Vec<&u32> = keys.iter().collect();
            // consumed through `next()` and, every other position, through `nth(0)` (the same thing
            // by the Iterator contract; skip / step_by are built on nth)
            let mut it = cache.multi_get_iterator(refs);
            let mut got: Vec<Option<u64>> = vec![];
            loop {
                let x = if got.len() % 2 == 1 { it.nth(0) } else { it.next() };
                match x {
                    Some(v) => got.push(v),
                    None => break,
                }
                if got.len() > keys.len() + 1 {
                    break;
                }
            }
            let complete = got.len() == keys.len();
            let mut vals = got;
            vals.resize(keys.len(), None);
            vals.truncate(keys.len());
            (vals, complete)
        }
        ReadKind::MultiGetMapIter => {
            let refs: Vec<&u32> = keys.iter().collect();
            let mut it = cache.multi_get_map_iterator(refs, |v| !v);
            let mut got: Vec<Option<u64>> = vec![];
            loop {
                let x = if got.len() % 2 == 1 { it.nth(0) } else { it.next() };
                match x {
                    Some(v) => got.push(v.map(|v| !v)),
                    None => break,
                }
                if got.len() > keys.len() + 1 {
                    break;
                }
            }
            let complete = got.len() == keys.len();
            let mut vals = got;
            vals.resize(keys.len(), None);
            vals.truncate(keys.len());
            (vals, complete)
        }
    }
}

pub fn observe(cache: &Cache, label: &str) -> Obs {
    let mut store: Vec<(u32, u64, Option<Dur>, bool)> =
        cache.verif_store().into_iter().map(|(k, id, e, d)| (k, id, e.map(dur_of), d)).collect();
    store.sort();
    let mut weights: Vec<(u64, u32, u64, i64)> = cache.verif_weights();
    weights.sort();
    let mut expiry_index: Vec<(usize, u64, Dur)> =
        cache.verif_expiry_index().into_iter().map(|(s, id, e)| (s, id, dur_of(e))).collect();
    expiry_index.sort();
    Obs {
        label: label.to_string(),
        weight_used: cache.total_weight_used(),
        stats: Stats::from(&cache.stats_summary()),
        store,
        weights,
        expiry_index,
        buffered: cache.verif_buffered(),
        clock: now_dur(),
    }
}

/// Execute one operation of thread `ctx.t` (index `i`), logging invoke / return / ack events.
pub fn exec_op(cache: &Cache, ctx: &mut ThreadCtx, i: usize, op: &Op, shards: usize) {
    let t = ctx.t;
    log(Item::Invoke { t, i, op: op.clone(), clock: now_dur() });
    let mut write_result: Option<(Result<Ack, ()>, Wait)> = None;
    let res = match op {
        Op::Put { key, val, weight, ttl, wait } => {
            let r = match (weight, ttl) {
                (None, None) => cache.put(*key, *val),
                (Some(w), None) => cache.put_with_weight(*key, *val, *w),
                (None, Some(d)) => cache.put_with_ttl(*key, *val, d.to_std()),
                (Some(w), Some(d)) => cache.put_with_weight_and_ttl(*key, *val, *w, d.to_std()),
            };
            let ok = r.is_ok();
            write_result = Some((r.map_err(|_| ()), *wait));
            Res::Write { ok }
        }
        Op::Upsert { key, val, weight, ttl, remove_ttl, wait } => {
            let mut b = PutOrUpdateRequestBuilder::new(*key);
            if let Some(v) = val {
                b = b.value(*v);
            }
            if let Some(w) = weight {
                b = b.weight(*w);
            }
            if let Some(d) = ttl {
                b = b.time_to_live(d.to_std());
            }
            if *remove_ttl {
                b = b.remove_time_to_live();
            }
            let req = b.build();
            if val.is_none() {
                // Documented precondition: a request without a value needs the key to be present.
                // In a concurrent run nobody can know that; the call asserts it before touching
                // anything (no lock held), so a refusal is caught here and recorded as a no-op.
                PRECONDITION_GUARD.with(|g| g.set(true));
                let r = std::panic::catch_unwind(std::panic::AssertUnwindSafe(|| cache.put_or_update(req)));
                PRECONDITION_GUARD.with(|g| g.set(false));
                match r {
                    Ok(r) => {
                        let ok = r.is_ok();
                        write_result = Some((r.map_err(|_| ()), *wait));
                        Res::Write { ok }
                    }
                    Err(e) => {
                        let msg = e.downcast_ref::<String>().cloned().or_else(|| e.downcast_ref::<&str>().map(|s| s.to_string())).unwrap_or_default();
                        if msg.contains("PutOrUpdate has resulted in a put request") {
                            PANIC.with(|p| *p.borrow_mut() = None);
                            sim::probe("valueless_upsert_refused_key_absent");
                            Res::Refused
                        } else {
                            std::panic::resume_unwind(e);
                        }
                    }
                }
            } else {
                let r = cache.put_or_update(req);
                let ok = r.is_ok();
                write_result = Some((r.map_err(|_| ()), *wait));
                Res::Write { ok }
            }
        }
        Op::Delete { key, wait } => {
            let r = cache.delete(*key);
            let ok = r.is_ok();
            write_result = Some((r.map_err(|_| ()), *wait));
            Res::Write { ok }
        }
        Op::Read { kind, keys } => {
            let (vals, complete) = do_read(cache, *kind, keys);
            Res::Read { vals, complete }
        }
        Op::WeightUsed => Res::Weight(cache.total_weight_used()),
        Op::Stats => Res::Stats(Stats::from(&cache.stats_summary())),
        Op::AwaitAll => Res::Unit,
        Op::Advance(d) => {
            let now = sim::now();
            // the simulated wall clock stays representable as a SystemTime (year 9999 at most)
            let next = now.checked_add(d.to_std()).unwrap_or(now);
            sim::set_now(if next.as_secs() > MAX_CLOCK_SECS { now } else { next });
            sim::probe("fault.clock_advance");
            Res::Unit
        }
        Op::Rewind(d) => {
            let now = sim::now();
            sim::set_now(now.checked_sub(d.to_std()).unwrap_or(now));
            sim::probe("fault.clock_backward");
            Res::Unit
        }
        Op::Tick => {
            let delivered = crossbeam_channel::sim_ticks::fire_ticks();
            if delivered == 0 {
                sim::probe("fault.tick_coalesced");
            } else {
                sim::probe("tick.delivered");
            }
            Res::Tick { delivered }
        }
        Op::AwaitIdle(role) => {
            sim::await_idle(role.to_sim());
            Res::Unit
        }
        Op::Rotate => {
            for _ in 0..shards {
                let now = sim::now();
                sim::set_now(now + Duration::from_secs(1));
                crossbeam_channel::sim_ticks::fire_ticks();
                sim::await_idle(Role::Sweeper);
            }
            sim::probe("rotate");
            Res::Unit
        }
        Op::Shutdown => {
            RUN.with(|r| r.borrow_mut().shutdown_called = true);
            cache.shutdown();
            sim::probe("fault.shutdown");
            Res::Unit
        }
        Op::Poll { slot, waker } => {
            let target = RUN.with(|r| r.borrow().global_slots.get(*slot).cloned());
            if let Some((id, ack)) = target {
                let w = counting_waker(*waker);
                let r = poll_once(&ack, &w);
                log(Item::Polled { ack: id, by: t, waker: *waker, res: r });
            }
            Res::Unit
        }
        Op::Yield => {
            shuttle::thread::yield_now();
            Res::Unit
        }
        Op::MapGetCallingBack { key, inner } => {
            // the acknowledgement of the inner delete is dropped (nobody waits for it)
            // (kept alive to the end of the run: a freed acknowledgement's address could be handed
            // to a later one, and the worker's events are attributed by address)
            let v = cache.map_get(key, |v| {
                if let Ok(ack) = cache.delete(*inner) {
                    RUN.with(|r| r.borrow_mut().keep.push(ack));
                }
                !v
            });
            Res::Read { vals: vec![v.map(|x| !x)], complete: true }
        }
    };
    if let Some((Ok(ack), _)) = &write_result {
        register_ack(ack, (t, i));
    }
    log(Item::Return { t, i, res, clock: now_dur() });

    if let Some((Ok(ack), wait)) = write_result {
        match wait {
            Wait::Now => {
                await_ack(&ack, (t, i), t);
                if let Op::Upsert { weight: Some(_), .. } = op {
                    if single_caller() {
                        log(Item::WeightAfterAck { t, i, weight: cache.total_weight_used() });
                    }
                }
            }
            Wait::Later => {
                ctx.pending.push((i, ack.clone()));
                RUN.with(|r| r.borrow_mut().global_slots.push(((t, i), ack.clone())));
                ctx.slots.push((i, ack));
            }
            Wait::Never => {
                RUN.with(|r| r.borrow_mut().global_slots.push(((t, i), ack.clone())));
                ctx.slots.push((i, ack));
            }
        }
    }
    if let Op::AwaitAll = op {
        // non-blocking look, last to first: once one is resolved all earlier ones must be
        let noop = Waker::noop().clone();
        let mut flags = vec![];
        for (wi, ack) in ctx.pending.iter().rev() {
            flags.push(((t, *wi), poll_once(ack, &noop).is_some()));
        }
        if !flags.is_empty() {
            log(Item::Resolved { t, acks: flags });
        }
        let pend = std::mem::take(&mut ctx.pending);
        for (wi, ack) in pend {
            await_ack(&ack, (t, wi), t);
        }
    }
}

fn run_program(cache: Arc<Cache>, t: usize, prog: Vec<Op>, shards: usize) -> ThreadCtx {
    let mut ctx = ThreadCtx { t, pending: vec![], slots: vec![] };
    for (i, op) in prog.iter().enumerate() {
        exec_op(&cache, &mut ctx, i, op, shards);
    }
    ctx
}

pub struct Prepared {
    pub scenario: Scenario,
    pub online: Option<Box<dyn Online>>,
}

thread_local! {
    static CURRENT: RefCell<Option<Prepared>> = RefCell::new(None);
}

pub fn set_current(p: Prepared) {
    CURRENT.with(|c| *c.borrow_mut() = Some(p));
}

pub fn take_current() -> Option<Prepared> {
    CURRENT.with(|c| c.borrow_mut().take())
}

pub fn current_scenario() -> Option<Scenario> {
    CURRENT.with(|c| c.borrow().as_ref().map(|p| p.scenario.clone()))
}

/// The body of one shuttle execution (task 0).
pub fn body() {
    let (sc, mut online) = CURRENT.with(|c| {
        let mut g = c.borrow_mut();
        let p = g.as_mut().expect("no scenario prepared");
        (p.scenario.clone(), p.online.take())
    });
    RUN.with(|r| *r.borrow_mut() = RunState::default());
    COMPLETED.with(|c| c.set(false));
    sim::reset(sc.salt, sc.cfg.start.to_std());
    getrandom::sim_reseed(sc.salt ^ 0x6765_7472_616e_646f);
    verif::install(Box::new(|ev| {
        let role = sim::current_task().and_then(sim::role_of).map(|r| r.name()).unwrap_or("caller").to_string();
        RUN.with(|r| {
            if let Ok(mut r) = r.try_borrow_mut() {
                r.log.push(Raw::H { role, ev });
            }
        });
    }));

    // The wall clock (what `SystemClock` reads) is simulated too and never agrees with the clock the
    // cache is configured with: it is skewed by an hour or 400 days either way (fault kind "clock
    // skew"). The cache always gets the simulated clock through its configuration, so nothing in it
    // may consult the wall clock.
    let skew_secs: i64 = [3_600i64, -3_600, 400 * 86_400, -400 * 86_400][(sc.salt % 4) as usize];
    verif::install_wall_clock(Box::new(move || {
        sim::probe("fault.wall_clock_read_by_the_cache");
        let t = UNIX_EPOCH + sim::now();
        if skew_secs >= 0 {
            t + std::time::Duration::from_secs(skew_secs as u64)
        } else {
            t - std::time::Duration::from_secs((-skew_secs) as u64)
        }
    }));

    let cache = Arc::new(build_cache(&sc.cfg));
    let shards = sc.cfg.shards;
    if let Some(drv) = online.as_mut() {
        getrandom::sim_reseed(sc.salt ^ 0x6765_7472_616e_646f);
        drv.start(&cache);
    }
    log(Item::Phase("run".into()));

    let mut leftovers: Vec<(usize, usize, Ack)> = vec![];
    SINGLE_CALLER.with(|c| c.set(online.is_some() && sc.threads.len() <= 1));
    if let Some(drv) = online.as_mut() {
        // SEQ: thread 0 drives online; other threads (if any) run fixed programs beside it
        let mut handles = vec![];
        for (t, prog) in sc.threads.iter().enumerate().skip(1) {
            let c = cache.clone();
            let p = prog.clone();
            handles.push(shuttle::thread::spawn(move || run_program(c, t, p, shards)));
        }
        let mut ctx = ThreadCtx { t: 0, pending: vec![], slots: vec![] };
        let mut step = 0usize;
        while let Some(op) = drv.next_op(step) {
            RUN.with(|r| r.borrow_mut().recorded_ops.push(op.clone()));
            drv.before_op(&op, &cache);
            exec_op(&cache, &mut ctx, step, &op, shards);
            drv.after_op(&op, step, &cache);
            step += 1;
            if has_violation() {
                break;
            }
        }
        for (wi, a) in ctx.slots {
            leftovers.push((0, wi, a));
        }
        for h in handles {
            let c = h.join().expect("caller thread");
            for (wi, a) in c.slots {
                leftovers.push((c.t, wi, a));
            }
        }
    } else {
        let mut handles = vec![];
        for (t, prog) in sc.threads.iter().enumerate() {
            let c = cache.clone();
            let p = prog.clone();
            handles.push(shuttle::thread::spawn(move || run_program(c, t, p, shards)));
        }
        for h in handles {
            let c = h.join().expect("caller thread");
            for (wi, a) in c.slots {
                leftovers.push((c.t, wi, a));
            }
        }
    }

    // ---- epilogue: faults have stopped ----
    sched::set_phase(Phase::Final);
    log(Item::Phase("epilogue".into()));
    if sc.property == "C15" {
        // every caller has returned; the consumer may still be far behind (or was withheld until
        // now): "at any time" each hit is buffered, delivered or counted as dropped
        log(Item::Obs(observe(&cache, "readers-quiet")));
    }
    // every acknowledgement ever handed out must resolve (C12 / C13 liveness): awaiting one that
    // never resolves leaves this task blocked forever, which shuttle reports as a deadlock
    let observed: std::collections::HashSet<AckId> = RUN.with(|r| {
        r.borrow()
            .log
            .iter()
            .filter_map(|x| match x {
                Raw::I(Item::AckObserved { ack, .. }) => Some(*ack),
                _ => None,
            })
            .collect()
    });
    for (t, wi, a) in &leftovers {
        if !observed.contains(&(*t, *wi)) {
            await_ack(a, (*t, *wi), usize::MAX);
        }
    }
    drop(leftovers);
    sim::await_idle(Role::Worker);
    sim::await_idle(Role::Sweeper);
    sim::await_idle(Role::Consumer);
    log(Item::Phase("quiescent".into()));
    log(Item::Obs(observe(&cache, "pre")));
    for k in 0..sc.cfg.keys {
        for kind in ALL_READS {
            let (vals, _) = do_read(&cache, kind, &[k]);
            log(Item::FinalRead { kind, key: k, val: vals[0] });
        }
    }
    if sc.property == "C07" && sc.family == "CONC" && !RUN.with(|r| r.borrow().shutdown_called) {
        // probe: a key that reads as absent at quiescence must not be refused as "already exists"
        for k in 0..sc.cfg.keys {
            if cache.get(&k).is_none() {
                if let Ok(ack) = cache.put_with_weight(k, 0xFFFF_0000_0000_0000 | k as u64, 1) {
                    let st = St::from(shuttle::future::block_on(ack.handle()));
                    RUN.with(|r| r.borrow_mut().keep.push(ack));
                    log(Item::FinalPut { key: k, st });
                }
            }
        }
        sim::await_idle(Role::Worker);
    }
    // the agreement reads may have handed buffers over: let the consumer drain them
    sim::await_idle(Role::Consumer);
    log(Item::Obs(observe(&cache, "post")));
    if let Some(drv) = online.as_mut() {
        drv.finish(&cache);
    }
    log(Item::Phase("teardown".into()));

    // ---- orderly teardown: worker, sweeper and consumer must all terminate ----
    CHAN_STATS.with(|c| {
        *c.borrow_mut() = sim::chans()
            .iter()
            .map(|ch| ChanStat {
                role: ch.role.name(),
                cap: ch.cap,
                sent: ch.sent.get(),
                send_blocked: ch.send_blocked.get(),
                try_send_full: ch.try_send_full.get(),
                max_queued: ch.max_queued.get(),
            })
            .collect()
    });
    RUN.with(|r| {
        let mut r = r.borrow_mut();
        r.keep.clear();
        r.global_slots.clear();
    });
    drop(cache);
    crossbeam_channel::sim_ticks::drop_ticks();
    PROBES.with(|p| *p.borrow_mut() = sim::probes());
    verif::uninstall();
    verif::uninstall_wall_clock();
    sim::finish();
    // hand the online driver back (it holds the model / recorded state the oracles may want)
    CURRENT.with(|c| {
        if let Some(p) = c.borrow_mut().as_mut() {
            p.online = online;
        }
    });
    COMPLETED.with(|c| c.set(true));
}
