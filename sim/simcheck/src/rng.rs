//! The only source of randomness in the harness: splitmix64-seeded xoshiro256**.
//! Every choice of a run (scenario, schedule, salts) derives from one u64.

#[derive(Clone, Debug)]
pub struct Rng {
    s: [u64; 4],
}

pub fn splitmix(x: &mut u64) -> u64 {
    *x = x.wrapping_add(0x9E37_79B9_7F4A_7C15);
    let mut z = *x;
    z = (z ^ (z >> 30)).wrapping_mul(0xBF58_476D_1CE4_E5B9);
    z = (z ^ (z >> 27)).wrapping_mul(0x94D0_49BB_1331_11EB);
    z ^ (z >> 31)
}

/// Mix several integers into one seed (order-sensitive).
pub fn mix(parts: &[u64]) -> u64 {
    let mut acc = 0x243F_6A88_85A3_08D3u64;
    for p in parts {
        acc ^= *p;
        acc = splitmix(&mut acc);
    }
    acc
}

pub fn hash_bytes(bytes: &[u8]) -> u64 {
    // FNV-1a 64 followed by a splitmix finaliser
    let mut h = 0xcbf2_9ce4_8422_2325u64;
    for b in bytes {
        h ^= *b as u64;
        h = h.wrapping_mul(0x100_0000_01b3);
    }
    let mut x = h;
    splitmix(&mut x)
}

impl Rng {
    pub fn new(seed: u64) -> Self {
        let mut x = seed;
        Rng { s: [splitmix(&mut x), splitmix(&mut x), splitmix(&mut x), splitmix(&mut x)] }
    }
    pub fn next(&mut self) -> u64 {
        let r = self.s[1].wrapping_mul(5).rotate_left(7).wrapping_mul(9);
        let t = self.s[1] << 17;
        self.s[2] ^= self.s[0];
        self.s[3] ^= self.s[1];
        self.s[1] ^= self.s[2];
        self.s[0] ^= self.s[3];
        self.s[2] ^= t;
        self.s[3] = self.s[3].rotate_left(45);
        r
    }
    /// uniform in 0..n (n > 0)
    pub fn below(&mut self, n: u64) -> u64 {
        debug_assert!(n > 0);
        ((self.next() as u128 * n as u128) >> 64) as u64
    }
    pub fn usize_below(&mut self, n: usize) -> usize {
        self.below(n as u64) as usize
    }
    /// uniform in lo..=hi
    pub fn range(&mut self, lo: u64, hi: u64) -> u64 {
        lo + self.below(hi - lo + 1)
    }
    pub fn range_i(&mut self, lo: i64, hi: i64) -> i64 {
        lo + self.below((hi - lo + 1) as u64) as i64
    }
    /// true with probability num/den
    pub fn chance(&mut self, num: u64, den: u64) -> bool {
        self.below(den) < num
    }
    pub fn pick<'a, T>(&mut self, xs: &'a [T]) -> &'a T {
        &xs[self.usize_below(xs.len())]
    }
    /// index drawn with the given integer weights
    pub fn weighted(&mut self, weights: &[u32]) -> usize {
        let total: u64 = weights.iter().map(|w| *w as u64).sum();
        let mut x = self.below(total.max(1));
        for (i, w) in weights.iter().enumerate() {
            if x < *w as u64 {
                return i;
            }
            x -= *w as u64;
        }
        weights.len() - 1
    }
    pub fn shuffle<T>(&mut self, xs: &mut [T]) {
        for i in (1..xs.len()).rev() {
            let j = self.usize_below(i + 1);
            xs.swap(i, j);
        }
    }
}
