//! The harness's own scheduler on top of shuttle's runtime: seeded modes (random walk, PCT,
//! sticky, round-robin), stall windows (fault: a background party is withheld), recording of every
//! choice, strict / lenient replay of a recorded choice list.
use crate::rng::Rng;
use crate::scenario::{Mode, SchedSpec};
use shuttle::scheduler::{Schedule, Scheduler, Task, TaskId};
use simsync::sim::{self, Role};
use std::cell::RefCell;
use std::collections::BTreeMap;

#[derive(Clone, Copy, Debug, PartialEq, Eq)]
pub enum Phase {
    /// scenario threads are running: stalls apply
    Run,
    /// harness epilogue (final awaits, quiescence, teardown): stalls are lifted
    Final,
}

#[derive(Default, Clone, Debug)]
pub struct SchedRecord {
    pub choices: Vec<u32>,
    pub steps: u64,
    pub context_switches: u64,
    pub preemptions: u64,
    /// a stalled role had to be run because nothing else was runnable (while Phase::Run)
    pub forced_breaks: BTreeMap<&'static str, u64>,
    /// steps during which some task was actually withheld
    pub stall_steps: BTreeMap<&'static str, u64>,
    pub diverged: Option<String>,
    pub random_draws: u64,
}

struct State {
    spec: SchedSpec,
    rng: Rng,
    data_rng: Rng,
    rec: SchedRecord,
    phase: Phase,
    // PCT
    prio: BTreeMap<usize, u64>,
    change_points: Vec<u64>,
    low_water: u64,
    replay_pos: usize,
}

thread_local! {
    static STATE: RefCell<Option<State>> = RefCell::new(None);
}

/// Called by the driver before each execution.
pub fn arm(spec: &SchedSpec) {
    let mut rng = Rng::new(spec.seed);
    let data_rng = Rng::new(spec.seed ^ 0xD1B5_4A32_D192_ED03);
    let mut change_points = vec![];
    if let Mode::Pct { depth, len } = spec.mode {
        for _ in 0..depth.saturating_sub(1) {
            change_points.push(rng.below(len.max(1) as u64));
        }
    }
    STATE.with(|s| {
        *s.borrow_mut() = Some(State {
            spec: spec.clone(),
            rng,
            data_rng,
            rec: SchedRecord::default(),
            phase: Phase::Run,
            prio: BTreeMap::new(),
            change_points,
            low_water: 0,
            replay_pos: 0,
        })
    });
}

pub fn set_phase(p: Phase) {
    STATE.with(|s| {
        if let Some(st) = s.borrow_mut().as_mut() {
            st.phase = p;
        }
    });
}

pub fn steps() -> u64 {
    STATE.with(|s| s.borrow().as_ref().map(|st| st.rec.steps).unwrap_or(0))
}

pub fn take_record() -> SchedRecord {
    STATE.with(|s| s.borrow_mut().as_mut().map(|st| std::mem::take(&mut st.rec)).unwrap_or_default())
}

pub fn peek_record() -> SchedRecord {
    STATE.with(|s| s.borrow().as_ref().map(|st| st.rec.clone()).unwrap_or_default())
}

/// What the driver wants between executions.
pub trait Driver {
    /// Called when the previous execution (if any) has completely finished, then asked whether
    /// there is another one to run. Returning false ends `Runner::run`.
    fn next_execution(&mut self) -> bool;
}

pub struct SimScheduler<D: Driver> {
    pub driver: D,
}

impl State {
    fn stalled(&self, task: usize) -> Option<Role> {
        if self.phase != Phase::Run || self.spec.stalls.is_empty() {
            return None;
        }
        let role = sim::role_of(task)?;
        let step = self.rec.steps;
        for st in &self.spec.stalls {
            if st.role.to_sim() == role && step >= st.from && step < st.until {
                return Some(role);
            }
        }
        None
    }

    fn pick(&mut self, runnable: &[&Task], current: Option<TaskId>, is_yielding: bool) -> Option<TaskId> {
        self.rec.steps += 1;
        let ids: Vec<usize> = runnable.iter().map(|t| usize::from(t.id())).collect();
        let cur = current.map(usize::from);

        // stall filter
        let mut cands: Vec<usize> = Vec::with_capacity(ids.len());
        let mut withheld: Option<Role> = None;
        for id in &ids {
            match self.stalled(*id) {
                Some(r) => withheld = Some(r),
                None => cands.push(*id),
            }
        }
        if let Some(r) = withheld {
            if cands.is_empty() {
                *self.rec.forced_breaks.entry(r.name()).or_insert(0) += 1;
                cands = ids.clone();
            } else {
                *self.rec.stall_steps.entry(r.name()).or_insert(0) += 1;
            }
        }

        // replay
        if let Some(choices) = &self.spec.choices {
            if self.replay_pos < choices.len() {
                let want = choices[self.replay_pos] as usize;
                self.replay_pos += 1;
                if ids.contains(&want) {
                    return self.commit(want, cur);
                }
                // Never return None to shuttle (it would tear unfinished tasks down mid-flight):
                // note the divergence and carry on with the mode; the driver reports it.
                if self.spec.strict && self.rec.diverged.is_none() {
                    self.rec.diverged = Some(format!(
                        "step {}: recorded choice task {} is not runnable (runnable: {:?})",
                        self.rec.steps, want, ids
                    ));
                }
            } else if self.spec.strict && self.rec.diverged.is_none() {
                self.rec.diverged = Some(format!("step {}: recorded choice list exhausted", self.rec.steps));
            }
            // fall through to the mode
        }

        let choice = match self.spec.mode {
            Mode::Random => cands[self.rng.usize_below(cands.len())],
            Mode::Sticky { stay } => match cur {
                Some(c) if !is_yielding && cands.contains(&c) && self.rng.below(256) < stay as u64 => c,
                _ => cands[self.rng.usize_below(cands.len())],
            },
            Mode::RoundRobin => match cur {
                Some(c) => *cands.iter().find(|id| **id > c).unwrap_or(&cands[0]),
                None => cands[0],
            },
            Mode::Pct { .. } => {
                for id in &ids {
                    if !self.prio.contains_key(id) {
                        let p = (1u64 << 32) + self.rng.below(1 << 31);
                        self.prio.insert(*id, p);
                    }
                }
                let step = self.rec.steps;
                let hit = self.change_points.iter().any(|c| *c == step);
                if let Some(c) = cur {
                    if hit || is_yielding {
                        self.low_water += 1;
                        let lw = self.low_water;
                        // below every initial priority, and below earlier demotions
                        self.prio.insert(c, (1u64 << 31) - lw);
                    }
                }
                *cands.iter().max_by_key(|id| self.prio[id]).unwrap()
            }
        };
        self.commit(choice, cur)
    }

    fn commit(&mut self, choice: usize, cur: Option<usize>) -> Option<TaskId> {
        self.rec.choices.push(choice as u32);
        if let Some(c) = cur {
            if c != choice {
                self.rec.context_switches += 1;
            }
        }
        Some(TaskId::from(choice))
    }
}

impl<D: Driver> Scheduler for SimScheduler<D> {
    fn new_execution(&mut self) -> Option<Schedule> {
        if self.driver.next_execution() {
            Some(Schedule::new(0))
        } else {
            None
        }
    }

    fn next_task(&mut self, runnable: &[&Task], current: Option<TaskId>, is_yielding: bool) -> Option<TaskId> {
        STATE.with(|s| {
            let mut g = s.borrow_mut();
            let st = g.as_mut().expect("scheduler not armed");
            // a preemption: the current task could have continued but another one was chosen
            let cur_runnable = current.map(|c| runnable.iter().any(|t| t.id() == c)).unwrap_or(false);
            let r = st.pick(runnable, current, is_yielding);
            if let (Some(c), Some(n)) = (current, r) {
                if cur_runnable && c != n && !is_yielding {
                    st.rec.preemptions += 1;
                }
            }
            r
        })
    }

    fn next_u64(&mut self) -> u64 {
        STATE.with(|s| {
            let mut g = s.borrow_mut();
            let st = g.as_mut().expect("scheduler not armed");
            st.rec.random_draws += 1;
            st.data_rng.next()
        })
    }
}
