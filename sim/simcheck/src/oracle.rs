//! Post-hoc oracles over a recorded history. Each returns violations of *its* property only and
//! uses nothing but "definitely" relations (DESIGN.md section 4.3), so that it never demands more
//! than the property states.
use crate::exec::Violation;
use crate::hist::*;
use crate::hx::*;
use crate::scenario::*;

pub struct Verdict {
    pub violations: Vec<Violation>,
    /// the run exercised what the property is about (per-property rule, see DESIGN.md section 5)
    pub nontrivial: bool,
    /// reach probes hit by this run
    pub probes: Vec<&'static str>,
}

impl Verdict {
    pub fn new() -> Verdict {
        Verdict { violations: vec![], nontrivial: false, probes: vec![] }
    }
    pub fn fail(&mut self, property: &str, signature: String, message: String, event: u64) {
        self.violations.push(Violation { property: property.to_string(), signature, message, event });
    }
}

fn fmt_op(w: &WriteRec) -> String {
    format!("T{}#{} {}", w.t, w.i, w.op.short())
}

/// C01: every observation of the total weight lies in [0, limit].
pub fn c01(sc: &Scenario, hx: &Hx, v: &mut Verdict) {
    let limit = sc.cfg.weight;
    let mut inflight_obs = false;
    for (rec, w) in &hx.weights {
        if *w < 0 || *w > limit {
            let class = if *w < 0 { "negative" } else { "over-limit" };
            v.fail(
                "C01",
                format!("C01/{}/conc", class),
                format!("T{}#{} total_weight_used() = {} with limit {}", rec.t, rec.i, w, limit),
                rec.ret,
            );
        }
        // non-trivial: taken while some command was queued or being applied
        if hx.writes.iter().any(|wr| {
            wr.queued() && wr.ret.map(|r| r < rec.ret).unwrap_or(false) && wr.acked.map(|a| a > rec.inv).unwrap_or(true)
        }) {
            inflight_obs = true;
        }
    }
    for (s, o) in &hx.obs {
        if o.weight_used < 0 || o.weight_used > limit {
            v.fail(
                "C01",
                "C01/over-limit/quiescent".to_string(),
                format!("at quiescence total_weight_used() = {} with limit {}", o.weight_used, limit),
                *s,
            );
        }
    }
    let evicted = hx.hooks.iter().any(|h| matches!(h.2, Hook::Evicted { .. }));
    let rejected = hx.writes.iter().any(|w| matches!(w.apply_end, Some((_, St::RejNoSpace)) | Some((_, St::RejTooHeavy))));
    if evicted {
        v.probes.push("eviction");
    }
    if rejected {
        v.probes.push("admission_reject");
    }
    if inflight_obs {
        v.probes.push("observation_while_command_in_flight");
    }
    v.nontrivial = (evicted || rejected) && inflight_obs;
}

/// C02: a read returns only a value written to that key, not rejected, not definitely superseded
/// or deleted before the read began; all read variants agree at quiescence.
pub fn c02(sc: &Scenario, hx: &Hx, v: &mut Verdict) {
    let mut overlapped = false;
    for r in &hx.reads {
        for (pos, k) in r.keys.iter().enumerate() {
            let val = match r.vals.get(pos).copied().flatten() {
                Some(x) => x,
                None => continue,
            };
            let ctx = format!("variant={:?},hash={:?}", r.kind, sc.cfg.hash);
            let wi = match hx.by_token.get(&val) {
                Some(wi) => *wi,
                None => {
                    v.fail(
                        "C02",
                        format!("C02/unwritten-value/{}", ctx),
                        format!("T{}#{} {:?}(k{}) returned {:x} which nobody wrote", r.t, r.i, r.kind, k, val),
                        r.ret,
                    );
                    continue;
                }
            };
            let w = &hx.writes[wi];
            if w.key != *k {
                v.fail(
                    "C02",
                    format!("C02/foreign-value/{}", ctx),
                    format!("T{}#{} {:?}(k{}) returned {:x}, written to k{} by {}", r.t, r.i, r.kind, k, val, w.key, fmt_op(w)),
                    r.ret,
                );
                continue;
            }
            if w.inv > r.ret {
                v.fail(
                    "C02",
                    format!("C02/value-from-the-future/{}", ctx),
                    format!("T{}#{} {:?}(k{}) returned {:x} before {} was invoked", r.t, r.i, r.kind, k, val, fmt_op(w)),
                    r.ret,
                );
                continue;
            }
            if let (Some(st), false) = (w.status(), w.upsert_in_place()) {
                if st.is_rejected() || st == St::ShuttingDown {
                    v.fail(
                        "C02",
                        format!("C02/rejected-write-visible/{}", ctx),
                        format!("T{}#{} {:?}(k{}) returned {:x} of {} which was acknowledged {:?}", r.t, r.i, r.kind, k, val, fmt_op(w), st),
                        r.ret,
                    );
                    continue;
                }
            }
            // superseded / deleted: some other effective write or delete of k definitely after w and
            // definitely complete before the read was invoked
            let w_done = match w.done_seq() {
                Some(d) => d,
                None => {
                    // an in-place upsert's value is in the store when the call returns
                    if w.upsert_in_place() { w.ret.unwrap_or(u64::MAX) } else { u64::MAX }
                }
            };
            for w2 in hx.writes_of_key(*k) {
                if w2.t == w.t && w2.i == w.i {
                    continue;
                }
                let writes_value = w2.value().is_some();
                if !(writes_value || w2.is_delete()) {
                    continue;
                }
                if w2.inv <= w_done {
                    continue; // not definitely after w
                }
                // effective and complete?
                let complete = if w2.is_delete() {
                    // hidden once delete() returned -- provided it did something, which we only know
                    // for sure if it was acknowledged as accepted
                    match w2.status() {
                        Some(St::Accepted) => w2.ret,
                        _ => None,
                    }
                } else if w2.upsert_in_place() {
                    w2.ret
                } else {
                    match w2.status() {
                        Some(St::Accepted) => w2.done_seq(),
                        _ => None,
                    }
                };
                if let Some(c) = complete {
                    if c < r.inv {
                        let class = if w2.is_delete() { "deleted-value" } else { "superseded-value" };
                        v.fail(
                            "C02",
                            format!("C02/{}/{}", class, ctx),
                            format!(
                                "T{}#{} {:?}(k{}) returned {:x} of {}, but {} came definitely later and was complete before the read began",
                                r.t, r.i, r.kind, k, val, fmt_op(w), fmt_op(w2)
                            ),
                            r.ret,
                        );
                        break;
                    }
                }
            }
        }
        // non-trivial: the read overlaps a write / delete of one of its keys
        for k in &r.keys {
            if hx.writes_of_key(*k).any(|w| {
                let end = w.acked.or(w.ret).unwrap_or(u64::MAX);
                w.inv < r.ret && end > r.inv
            }) {
                overlapped = true;
            }
        }
    }
    // agreement of the seven variants at quiescence
    for k in 0..sc.cfg.keys {
        let vals: Vec<(ReadKind, Option<u64>)> = hx.final_reads.iter().filter(|f| f.1 == k).map(|f| (f.0, f.2)).collect();
        if let Some(first) = vals.first() {
            if let Some(other) = vals.iter().find(|x| x.1 != first.1) {
                v.fail(
                    "C02",
                    format!("C02/variants-disagree/{:?}-vs-{:?}", first.0, other.0),
                    format!("at quiescence k{}: {:?} -> {:?} but {:?} -> {:?}", k, first.0, first.1, other.0, other.1),
                    hx.len,
                );
            }
        }
    }
    if overlapped {
        v.probes.push("read_overlapped_write_of_same_key");
    }
    if hx.hooks.iter().any(|h| matches!(h.2, Hook::Evicted { .. })) {
        v.probes.push("eviction");
    }
    v.nontrivial = overlapped;
}

/// C12 (passive part, armed on every awaited acknowledgement): never Pending, equals the outcome
/// the worker computed, ShuttingDown iff drained.
pub fn c12_passive(hx: &Hx, v: &mut Verdict) {
    for w in &hx.writes {
        if let Some((s, st, by, polls)) = w.ack_obs {
            let pollers = if by == usize::MAX { "epilogue" } else { "caller" };
            if st == St::Pending {
                v.fail(
                    "C12",
                    "C12/poll-returned-Pending/await".to_string(),
                    format!("awaiting the acknowledgement of {} ({}) yielded Pending after {} pending polls", fmt_op(w), pollers, polls),
                    s,
                );
                continue;
            }
            if let Some((_, real)) = w.apply_end {
                if real != st {
                    v.fail(
                        "C12",
                        "C12/wrong-status/await".to_string(),
                        format!("{}: worker finished with {:?} but the acknowledgement yielded {:?}", fmt_op(w), real, st),
                        s,
                    );
                }
            } else if w.drained.is_some() && st != St::ShuttingDown {
                v.fail(
                    "C12",
                    "C12/wrong-status/drained".to_string(),
                    format!("{}: drained behind Shutdown but the acknowledgement yielded {:?}", fmt_op(w), st),
                    s,
                );
            }
        }
    }
}

/// C13: after shutdown() returned every write errs and every read is absent/empty; every
/// acknowledgement resolves to its real outcome (if the command ran) or ShuttingDown.
pub fn c13(_sc: &Scenario, hx: &Hx, v: &mut Verdict) {
    let sd_ret = match hx.first_shutdown_ret() {
        Some(s) => s,
        None => {
            return;
        }
    };
    let conc = if hx.shutdowns.len() > 1 { "multi" } else { "single" };
    for w in &hx.writes {
        if w.inv > sd_ret && w.ok {
            v.fail(
                "C13",
                format!("C13/write-ok-after-shutdown/op={}", opname(&w.op)),
                format!("{} was invoked after shutdown() had returned and did not return an error", fmt_op(w)),
                w.ret.unwrap_or(w.inv),
            );
        }
        if w.ok {
            match w.ack_obs {
                None => v.fail(
                    "C13",
                    "C13/ack-never-resolved".to_string(),
                    format!("{}: acknowledgement was never observed resolved", fmt_op(w)),
                    hx.len,
                ),
                Some((s, st, _, _)) => {
                    if st == St::Pending {
                        v.fail("C13", "C13/ack-pending".to_string(), format!("{} resolved to Pending", fmt_op(w)), s);
                    } else if let Some((_, real)) = w.apply_end {
                        if st != real {
                            v.fail(
                                "C13",
                                format!("C13/ack-wrong-status/ran,shutdowns={}", conc),
                                format!("{} ran with outcome {:?} but its acknowledgement says {:?}", fmt_op(w), real, st),
                                s,
                            );
                        }
                    } else if w.queued() && st != St::ShuttingDown {
                        v.fail(
                            "C13",
                            format!("C13/ack-wrong-status/not-run,shutdowns={}", conc),
                            format!("{} never ran (queued behind Shutdown) but its acknowledgement says {:?}", fmt_op(w), st),
                            s,
                        );
                    } else if !w.queued() && st == St::ShuttingDown {
                        // answered on the spot with ShuttingDown? the API only does that through Err
                        v.fail(
                            "C13",
                            "C13/ack-wrong-status/immediate".to_string(),
                            format!("{} was answered on the spot with ShuttingDown", fmt_op(w)),
                            s,
                        );
                    }
                }
            }
        }
    }
    for r in &hx.reads {
        if r.inv > sd_ret {
            if let Some(pos) = r.vals.iter().position(|x| x.is_some()) {
                v.fail(
                    "C13",
                    format!("C13/read-some-after-shutdown/variant={:?}", r.kind),
                    format!("T{}#{} {:?}(k{}) invoked after shutdown() returned yielded {:x}", r.t, r.i, r.kind, r.keys[pos], r.vals[pos].unwrap()),
                    r.ret,
                );
            }
        }
    }
    let queued_behind = hx.writes.iter().any(|w| w.drained.is_some());
    let raced = hx.writes.iter().any(|w| {
        let sd_inv = hx.first_shutdown_inv().unwrap_or(u64::MAX);
        w.inv < sd_ret && w.ret.unwrap_or(u64::MAX) > sd_inv
    });
    if queued_behind {
        v.probes.push("command_queued_behind_shutdown");
    }
    if raced {
        v.probes.push("write_overlapped_shutdown");
    }
    if hx.shutdowns.len() > 1 {
        v.probes.push("multiple_shutdown_calls");
    }
    v.nontrivial = queued_behind || raced;
}

pub fn opname(op: &Op) -> &'static str {
    match op {
        Op::Put { weight, ttl, .. } => match (weight.is_some(), ttl.is_some()) {
            (false, false) => "put",
            (true, false) => "put_with_weight",
            (false, true) => "put_with_ttl",
            (true, true) => "put_with_weight_and_ttl",
        },
        Op::Upsert { .. } => "put_or_update",
        Op::Delete { .. } => "delete",
        Op::Read { .. } => "read",
        Op::Shutdown => "shutdown",
        _ => "other",
    }
}

/// like `opname`, but also names the time / sweep operations
pub fn opname2(op: &Op) -> &'static str {
    match op {
        Op::Advance(_) => "advance",
        Op::Rewind(_) => "rewind",
        Op::Tick => "tick",
        Op::AwaitIdle(RoleName::Sweeper) => "sweep",
        Op::AwaitIdle(_) => "await-idle",
        Op::Rotate => "rotate",
        other => opname(other),
    }
}

// ------------------------------------------------------------------------------------------------
// Owner oracle: with exactly one writer per key, issuing its operations on that key one after
// another (each acknowledged before the next begins), the state of the key between two owner
// operations is determined by the owner's history alone. Reads by *any* thread that fall entirely
// into such a gap are judged against it (serves C03, C09 and the safety half of C10).

#[derive(Clone, Debug, PartialEq)]
enum OwnerState {
    Absent,
    /// value, and the interval [emin, emax] the expiry lies in (None = no TTL)
    Present { val: u64, exp: Option<(Dur, Dur)> },
    Unknown,
}

fn add(a: Dur, b: Dur) -> Dur {
    a.to_std().checked_add(b.to_std()).map(Dur::from_std).unwrap_or(Dur { s: u64::MAX / 4, n: 0 })
}

pub struct OwnerFinding {
    pub class: &'static str,
    pub msg: String,
    pub event: u64,
    /// which background activity, if any, raced with the owner's last operation on the key
    pub race: &'static str,
    /// the current incarnation of the key carried a TTL at some point (it was removed by an upsert)
    pub had_ttl: bool,
}

/// Did a sweep that expired the entry with this id overlap the given call interval?
fn sweep_overlapped(hx: &Hx, id: u64, inv: u64, ret: u64) -> bool {
    if id == 0 {
        return false;
    }
    let mut begin: Option<u64> = None;
    let mut hit = false;
    for (s, _r, ev) in &hx.hooks {
        match ev {
            Hook::SweepBegin { .. } => {
                begin = Some(*s);
                hit = false;
            }
            Hook::SweepExpired { id: x, .. } if *x == id => hit = true,
            Hook::SweepDone => {
                if let Some(b) = begin {
                    if hit && b < ret && *s > inv {
                        return true;
                    }
                }
                begin = None;
            }
            _ => {}
        }
    }
    false
}

/// `fits` = the scenario's demanded weight provably fits (nothing is ever evicted), so "must be
/// served" obligations may be asserted.
pub fn owner_oracle(sc: &Scenario, hx: &Hx, fits: bool) -> (Vec<OwnerFinding>, bool, bool) {
    let mut out = vec![];
    let mut judged_after_reput = false;
    let mut judged_expiry_window = false;
    if hx.first_shutdown_inv().is_some() {
        return (out, false, false);
    }
    for k in 0..sc.cfg.keys {
        let mut ws: Vec<&WriteRec> = hx.writes_of_key(k).collect();
        if ws.is_empty() {
            continue;
        }
        let owner = ws[0].t;
        if ws.iter().any(|w| w.t != owner) {
            continue; // not an owned key
        }
        ws.sort_by_key(|w| w.inv);
        // gaps: (from_seq, to_seq, state)
        let mut state = OwnerState::Absent;
        let mut gaps: Vec<(u64, u64, OwnerState, bool, &'static str, bool)> = vec![];
        let mut had_ttl = false;
        let mut cur_id = 0u64;
        let mut race: &'static str = "race=none";
        let mut prev_done = 0u64;
        let mut reput = false;
        let mut ever_removed = false;
        for w in &ws {
            gaps.push((prev_done, w.inv, state.clone(), reput, race, had_ttl));
            race = "race=none";
            let done = match w.done_seq() {
                Some(d) => d,
                None => {
                    state = OwnerState::Unknown;
                    prev_done = u64::MAX;
                    break;
                }
            };
            let st = w.status().unwrap_or(St::Pending);
            let put_like = w.is_put() || (w.is_upsert() && !w.upsert_in_place());
            let (val, ttl, remove_ttl) = match &w.op {
                Op::Put { val, ttl, .. } => (Some(*val), *ttl, false),
                Op::Upsert { val, ttl, remove_ttl, .. } => (*val, *ttl, *remove_ttl),
                _ => (None, None, false),
            };
            state = if w.is_delete() {
                ever_removed = true;
                match st {
                    St::Accepted | St::RejNoKey => OwnerState::Absent,
                    _ => OwnerState::Unknown,
                }
            } else if put_like {
                match st {
                    St::Accepted => {
                        if ever_removed {
                            reput = true;
                        }
                        cur_id = w.key_id;
                        had_ttl = ttl.is_some();
                        // the expiry is computed on the worker while it applies the command
                        let lo = w.apply_begin.map(|s| hx.clock_lo(s)).unwrap_or(w.clock_inv);
                        let hi = w.apply_end.map(|e| hx.clock_hi(e.0)).unwrap_or_else(|| hx.clock_hi(done));
                        let exp = ttl.map(|d| (add(lo, d), add(hi, d)));
                        OwnerState::Present { val: val.unwrap_or(0), exp }
                    }
                    St::RejExists => state.clone(),
                    _ => OwnerState::Unknown,
                }
            } else {
                // in-place upsert: did the sweeper expire this very entry while the call was running?
                if sweep_overlapped(hx, cur_id, w.inv, w.ret.unwrap_or(u64::MAX)) {
                    race = "race=upsert-overlapped-sweep-of-same-entry";
                }
                match (&state, st) {
                    (OwnerState::Present { val: old, exp }, St::Accepted) => {
                        if ttl.is_some() {
                            had_ttl = true;
                        }
                        let nexp = if remove_ttl {
                            None
                        } else if let Some(d) = ttl {
                            Some((add(w.clock_inv, d), add(w.clock_ret, d)))
                        } else {
                            *exp
                        };
                        OwnerState::Present { val: val.unwrap_or(*old), exp: nexp }
                    }
                    _ => OwnerState::Unknown,
                }
            };
            if let OwnerState::Present { exp: Some(_), .. } = state {
                ever_removed = true; // a TTL key may be swept and come back: counts as a re-put history
            }
            prev_done = done;
        }
        if prev_done != u64::MAX {
            gaps.push((prev_done, u64::MAX, state.clone(), reput, race, had_ttl));
        }
        for r in &hx.reads {
            for (pos, rk) in r.keys.iter().enumerate() {
                if *rk != k {
                    continue;
                }
                let got = r.vals.get(pos).copied().flatten();
                let gap = gaps.iter().find(|g| r.inv > g.0 && r.ret < g.1);
                let (state, was_reput, race, gap_had_ttl) = match gap {
                    Some(g) => (&g.2, g.3, g.4, g.5),
                    None => continue,
                };
                match state {
                    OwnerState::Unknown => {}
                    OwnerState::Absent => {
                        if let Some(v) = got {
                            out.push(OwnerFinding {
                                class: "served-absent-key",
                                msg: format!("T{}#{} {:?}(k{}) returned {:x} although its owner had deleted it / never put it", r.t, r.i, r.kind, k, v),
                                event: r.ret,
                                race,
                                had_ttl: gap_had_ttl,
                            });
                        }
                    }
                    OwnerState::Present { val, exp } => {
                        if was_reput {
                            judged_after_reput = true;
                        }
                        if let Some(v) = got {
                            if v != *val {
                                out.push(OwnerFinding {
                                    class: "altered-value",
                                    msg: format!("T{}#{} {:?}(k{}) returned {:x}, the owner's latest acknowledged value is {:x}", r.t, r.i, r.kind, k, v, val),
                                    event: r.ret,
                                    race,
                                    had_ttl: gap_had_ttl,
                                });
                                continue;
                            }
                        }
                        match exp {
                            None => {
                                if got.is_none() && fits {
                                    out.push(OwnerFinding {
                                        class: "lost-live-key",
                                        msg: format!("T{}#{} {:?}(k{}) returned None; the owner's accepted value {:x} has no TTL, was not deleted and nothing can be evicted", r.t, r.i, r.kind, k, val),
                                        event: r.ret,
                                        race,
                                        had_ttl: gap_had_ttl,
                                    });
                                }
                            }
                            Some((emin, emax)) => {
                                judged_expiry_window = true;
                                if r.clock_inv > *emax && got.is_some() {
                                    out.push(OwnerFinding {
                                        class: "served-after-expiry",
                                        msg: format!("T{}#{} {:?}(k{}) served {:x} at clock {}.{:09} although its expiry is at most {}.{:09}", r.t, r.i, r.kind, k, val, r.clock_inv.s, r.clock_inv.n, emax.s, emax.n),
                                        event: r.ret,
                                        race,
                                        had_ttl: gap_had_ttl,
                                    });
                                }
                                if r.clock_ret <= *emin && got.is_none() && fits {
                                    out.push(OwnerFinding {
                                        class: "hidden-before-expiry",
                                        msg: format!("T{}#{} {:?}(k{}) returned None at clock {}.{:09} although {:x} expires no earlier than {}.{:09}", r.t, r.i, r.kind, k, r.clock_ret.s, r.clock_ret.n, val, emin.s, emin.n),
                                        event: r.ret,
                                        race,
                                        had_ttl: gap_had_ttl,
                                    });
                                }
                            }
                        }
                    }
                }
            }
        }
    }
    (out, judged_after_reput, judged_expiry_window)
}

/// A live key that went missing while a sweep of the very same entry overlapped the owner's
/// in-place upsert is one specific history (finding D11); everything else keeps its class.
fn race_signature(prop: &str, class: &str, race: &str) -> String {
    if race != "race=none" && matches!(class, "lost-live-key" | "hidden-before-expiry") {
        format!("{}/accepted-upsert-lost-to-concurrent-sweep/{}", prop, race)
    } else {
        format!("{}/{}/conc", prop, class)
    }
}

pub fn c03_conc(sc: &Scenario, hx: &Hx, v: &mut Verdict) {
    let (finds, reput, _) = owner_oracle(sc, hx, true);
    for f in finds {
        if matches!(f.class, "lost-live-key" | "altered-value" | "hidden-before-expiry") {
            v.fail("C03", race_signature("C03", f.class, f.race), f.msg, f.event);
        }
    }
    // at the end no owned live key is missing (final agreement reads are taken at quiescence)
    let swept = hx.hooks.iter().any(|h| matches!(h.2, Hook::SweepBegin { .. }));
    if reput {
        v.probes.push("read_judged_after_reput_of_same_key");
    }
    if swept {
        v.probes.push("sweep_executed");
    }
    v.nontrivial = reput && swept;
}

pub fn c09_conc(sc: &Scenario, hx: &Hx, v: &mut Verdict, fits: bool) {
    let (finds, _, window) = owner_oracle(sc, hx, fits);
    for f in finds {
        if matches!(f.class, "served-after-expiry" | "hidden-before-expiry") {
            v.fail("C09", race_signature("C09", f.class, f.race), f.msg, f.event);
        } else if f.class == "lost-live-key" && f.had_ttl && fits {
            // its TTL was removed, nothing can be evicted, it was not deleted: it "expired" anyway
            let sig = if f.race == "race=none" { "C09/no-ttl-key-expired/conc".to_string() } else { race_signature("C09", f.class, f.race) };
            v.fail("C09", sig, f.msg, f.event);
        }
    }
    if window {
        v.probes.push("read_judged_against_expiry_window");
    }
    v.nontrivial = window && !hx.advances.is_empty();
}

/// C10 (concurrent safety half): the sweeper only ever expires index entries that are due, from the
/// shard of its own tick time; and a key whose current TTL has not elapsed stays readable.
pub fn c10_conc(sc: &Scenario, hx: &Hx, v: &mut Verdict) {
    let shards = sc.cfg.shards as u64;
    let mut cur: Option<(Dur, usize)> = None;
    let mut expired_any = false;
    for (s, _role, ev) in &hx.hooks {
        match ev {
            Hook::SweepBegin { now, shard } => {
                cur = Some((*now, *shard));
                if now.s % shards != *shard as u64 {
                    v.fail("C10", "C10/wrong-shard-visited/conc".into(), format!("sweep at {}.{:09} visited shard {} of {}", now.s, now.n, shard, shards), *s);
                }
            }
            Hook::SweepExpired { id, expiry } => {
                expired_any = true;
                if let Some((now, shard)) = cur {
                    if !(now > *expiry) {
                        v.fail(
                            "C10",
                            "C10/swept-not-due/conc".into(),
                            format!("sweep at {}.{:09} expired id {} whose expiry {}.{:09} has not passed", now.s, now.n, id, expiry.s, expiry.n),
                            *s,
                        );
                    }
                    if expiry.s % shards != shard as u64 {
                        v.fail("C10", "C10/entry-in-wrong-shard/conc".into(), format!("id {} with expiry second {} found in shard {}", id, expiry.s, shard), *s);
                    }
                }
            }
            _ => {}
        }
    }
    let (finds, _, window) = owner_oracle(sc, hx, true);
    for f in finds {
        if matches!(f.class, "hidden-before-expiry" | "lost-live-key") {
            let sig = if f.race == "race=none" { format!("C10/swept-live-key/{}", f.class) } else { race_signature("C10", f.class, f.race) };
            v.fail("C10", sig, f.msg, f.event);
        }
    }
    // What a sweep expired is gone for good, entry and weight: at quiescence no store entry still
    // carries an id the sweeper expired, none of those ids is still charged, and -- if an
    // UpdateWeight for such an id was being applied while the sweeper expired it -- the total equals
    // the sum of what is still charged (the expired key's weight was released in full).
    if hx.first_shutdown_inv().is_none() {
        if let Some(o) = hx.obs_named("pre") {
            let expired: Vec<(u64, u64)> = hx.hooks.iter().filter_map(|h| if let Hook::SweepExpired { id, .. } = &h.2 { Some((h.0, *id)) } else { None }).collect();
            for (s, id) in &expired {
                if let Some(e) = o.store.iter().find(|e| e.1 == *id) {
                    v.fail(
                        "C10",
                        "C10/expired-by-the-sweeper-but-still-held/conc".into(),
                        format!("the sweeper expired id {} (k{}), yet at quiescence the store still holds that entry (charged: {:?})", id, e.0, o.weights.iter().find(|w| w.0 == *id).map(|w| w.3)),
                        *s,
                    );
                }
                if let Some(w) = o.weights.iter().find(|w| w.0 == *id) {
                    v.fail(
                        "C10",
                        "C10/weight-not-reclaimed/conc".into(),
                        format!("the sweeper expired id {} (k{}), yet at quiescence the id is still charged {}", id, w.1, w.3),
                        *s,
                    );
                }
            }
            // an UpdateWeight of the same id being applied around the moment the sweeper expired it
            let mut raced: Option<u64> = None;
            for (s, id) in &expired {
                let next_sweeper_event = hx.hooks.iter().find(|h| h.0 > *s && h.1 == "sweeper").map(|h| h.0).unwrap_or(u64::MAX);
                for w in hx.writes.iter().filter(|w| w.cmd_kind.as_deref() == Some("UpdateWeight") && w.key_id == *id) {
                    if let (Some(b), Some((e, _))) = (w.apply_begin, w.apply_end) {
                        if b < next_sweeper_event && *s < e {
                            raced = Some(*id);
                        }
                    }
                }
            }
            if let Some(id) = raced {
                v.probes.push("race.update_weight_applied_while_sweeper_expired_the_id");
                let sum: i64 = o.weights.iter().map(|w| w.3).sum();
                if sum != o.weight_used {
                    v.fail(
                        "C10",
                        "C10/weight-not-released-in-full/race=update-weight-overlapped-sweep-of-same-id".into(),
                        format!("the sweeper expired id {} while a weight update of it was being applied; at quiescence total_weight_used() = {} but the charged weights sum to {}", id, o.weight_used, sum),
                        hx.len,
                    );
                }
            }
        }
    }
    if expired_any {
        v.probes.push("sweep_expired_an_entry");
    }
    v.nontrivial = expired_any && window;
}

/// C04 (concurrent half): once delete(k) returned (and it was acknowledged as accepted), no read
/// invoked afterwards returns a value written definitely before the delete was invoked.
pub fn c04_conc(_sc: &Scenario, hx: &Hx, v: &mut Verdict) {
    let mut window_read = false;
    for d in hx.writes.iter().filter(|w| w.is_delete()) {
        let dret = match d.ret {
            Some(r) => r,
            None => continue,
        };
        if d.status() != Some(St::Accepted) {
            continue;
        }
        for r in &hx.reads {
            if r.inv <= dret {
                continue;
            }
            for (pos, k) in r.keys.iter().enumerate() {
                if *k != d.key {
                    continue;
                }
                if d.apply_begin.map(|a| r.ret < a).unwrap_or(false) {
                    window_read = true;
                }
                if let Some(val) = r.vals.get(pos).copied().flatten() {
                    if let Some(wi) = hx.by_token.get(&val) {
                        let w = &hx.writes[*wi];
                        let w_done = w.done_seq().or(if w.upsert_in_place() { w.ret } else { None });
                        if w_done.map(|x| x < d.inv).unwrap_or(false) {
                            let ttl = matches!(&w.op, Op::Put { ttl: Some(_), .. } | Op::Upsert { ttl: Some(_), .. });
                            v.fail(
                                "C04",
                                format!("C04/read-after-delete-returned/{}", if ttl { "ttl" } else { "no-ttl" }),
                                format!(
                                    "T{}#{} {:?}(k{}) returned {:x} ({}) although {} had returned before the read began",
                                    r.t, r.i, r.kind, k, val, fmt_op(w), fmt_op(d)
                                ),
                                r.ret,
                            );
                        }
                    }
                }
            }
        }
    }
    // once the delete is acknowledged as accepted the key is gone and its weight is no longer counted
    if hx.first_shutdown_inv().is_none() {
        if let Some(o) = hx.obs_named("pre") {
            let keys: std::collections::BTreeSet<u32> = hx.writes.iter().map(|w| w.key).collect();
            for k in keys {
                let ws: Vec<&WriteRec> = hx.writes_of_key(k).collect();
                let last = match ws.iter().max_by_key(|w| w.inv) {
                    Some(l) => *l,
                    None => continue,
                };
                if !last.is_delete() || last.status() != Some(St::Accepted) {
                    continue;
                }
                // every other write of the key had returned (hence was queued ahead, FIFO) before this
                // delete was invoked
                let settled = ws.iter().all(|w| std::ptr::eq(*w, last) || w.ret.map(|r| r < last.inv).unwrap_or(false));
                if !settled {
                    continue;
                }
                if let Some(e) = o.store.iter().find(|s| s.0 == k) {
                    v.fail(
                        "C04",
                        "C04/still-present-after-accepted-delete/conc".to_string(),
                        format!("k{}: {} was acknowledged Accepted and nothing wrote the key afterwards, yet the store holds id {}", k, fmt_op(last), e.1),
                        hx.len,
                    );
                }
                if let Some(c) = o.weights.iter().find(|w| w.1 == k) {
                    v.fail(
                        "C04",
                        "C04/weight-not-released/conc".to_string(),
                        format!("k{}: {} was acknowledged Accepted and nothing wrote the key afterwards, yet id {} is still charged weight {}", k, fmt_op(last), c.0, c.3),
                        hx.len,
                    );
                }
            }
        }
    }
    // every delete that hid an entry also releases it: with nothing left in the queue, no entry may
    // still be held under the mark of a delete (hidden from reads, charged, refusing new puts)
    if hx.first_shutdown_inv().is_none() {
        if let Some(o) = hx.obs_named("pre") {
            for e in o.store.iter().filter(|e| e.3) {
                v.fail(
                    "C04",
                    "C04/hidden-by-delete-but-never-released/quiescent".to_string(),
                    format!(
                        "at quiescence k{} (id {}) is still held under a delete's mark: no read returns it, its weight {:?} stays charged and no Delete command is left to release it",
                        e.0,
                        e.1,
                        o.weights.iter().find(|w| w.0 == e.1).map(|w| w.3)
                    ),
                    hx.len,
                );
            }
        }
    }
    if window_read {
        v.probes.push("read_between_delete_return_and_worker_delete");
    }
    v.nontrivial = window_read;
}

/// C05 / C16 at quiescence: accounting and statistics identities over the final observation.
pub fn quiescent_accounting(hx: &Hx, prop: &str, v: &mut Verdict) {
    if hx.first_shutdown_inv().is_some() {
        return;
    }
    let o = match hx.obs_named("pre") {
        Some(o) => o,
        None => return,
    };
    let racing = {
        // two writes of one key in flight together
        let mut r = false;
        for (a_i, a) in hx.writes.iter().enumerate() {
            for b in hx.writes.iter().skip(a_i + 1) {
                if a.key == b.key && a.queued() && b.queued() {
                    let a_end = a.acked.unwrap_or(u64::MAX);
                    let b_end = b.acked.unwrap_or(u64::MAX);
                    if a.inv < b_end && b.inv < a_end {
                        r = true;
                    }
                }
            }
        }
        r
    };
    if prop == "C05" {
        let store_ids: std::collections::BTreeSet<u64> = o.store.iter().map(|s| s.1).collect();
        let charged: std::collections::BTreeSet<u64> = o.weights.iter().map(|w| w.0).collect();
        let orphan: Vec<&u64> = charged.difference(&store_ids).collect();
        let uncharged: Vec<&u64> = store_ids.difference(&charged).collect();
        let pair = racing_pair(hx);
        if !orphan.is_empty() {
            v.fail(
                "C05",
                format!("C05/orphan-charged-id/conc,{}", pair),
                format!("at quiescence ids {:?} are charged ({:?}) but no store entry carries them; store {:?}", orphan, o.weights, o.store),
                hx.len,
            );
        }
        if !uncharged.is_empty() {
            v.fail(
                "C05",
                format!("C05/uncharged-entry/conc,{}", pair),
                format!("at quiescence store entries with ids {:?} are not charged; store {:?} weights {:?}", uncharged, o.store, o.weights),
                hx.len,
            );
        }
        if let Some(stuck) = o.store.iter().find(|s| s.3) {
            v.fail(
                "C05",
                format!("C05/held-key-soft-deleted-at-quiescence/conc,{}", pair),
                format!("at quiescence (every command acknowledged) k{} (id {}) is still held and charged but marked deleted: it can neither be read nor put again", stuck.0, stuck.1),
                hx.len,
            );
        }
        let sum: i64 = o.weights.iter().map(|w| w.3).sum();
        if sum != o.weight_used {
            v.fail(
                "C05",
                format!("C05/sum-mismatch/conc,{}", pair),
                format!("at quiescence total_weight_used() = {} but the charged weights sum to {}", o.weight_used, sum),
                hx.len,
            );
        }
        if racing {
            v.probes.push("two_writes_of_one_key_in_flight_together");
        }
        v.nontrivial = racing;
    }
    if prop == "C16" {
        c16_identities(hx, o, v);
    }
}

fn racing_pair(hx: &Hx) -> &'static str {
    // coarse context: which kinds of same-key writes overlapped
    let mut pp = false;
    let mut pu = false;
    let mut dp = false;
    for (a_i, a) in hx.writes.iter().enumerate() {
        for b in hx.writes.iter().skip(a_i + 1) {
            if a.key != b.key {
                continue;
            }
            let a_end = a.acked.or(a.ret).unwrap_or(u64::MAX);
            let b_end = b.acked.or(b.ret).unwrap_or(u64::MAX);
            if !(a.inv < b_end && b.inv < a_end) {
                continue;
            }
            match (a.is_put(), b.is_put(), a.is_upsert(), b.is_upsert(), a.is_delete(), b.is_delete()) {
                (true, true, ..) => pp = true,
                (true, _, _, true, ..) | (_, true, true, ..) => pu = true,
                (_, _, true, true, ..) => pu = true,
                (true, _, _, _, _, true) | (_, true, _, _, true, _) => dp = true,
                _ => {}
            }
        }
    }
    if pp {
        "race=put-put"
    } else if pu {
        "race=put-upsert"
    } else if dp {
        "race=delete-put"
    } else {
        "race=none"
    }
}

fn c16_identities(hx: &Hx, o: &Obs, v: &mut Verdict) {
    let s = &o.stats;
    // lookups issued before the "pre" observation: every key of every completed read op
    let lookups: u64 = hx.reads.iter().map(|r| r.keys.len() as u64).sum();
    let shape = if s.misses == 0 && s.hits > 0 {
        "all-hit"
    } else if s.hits == 0 {
        "all-miss"
    } else {
        "mixed"
    };
    if s.hits + s.misses != lookups {
        v.fail("C16", "C16/lookups/conc".into(), format!("hits {} + misses {} != {} lookups performed", s.hits, s.misses, lookups), hx.len);
    }
    if s.keys_added.wrapping_sub(s.keys_deleted) != o.store.len() as u64 {
        v.fail(
            "C16",
            "C16/keys/conc".into(),
            format!("KeysAdded {} - KeysDeleted {} != {} keys held", s.keys_added, s.keys_deleted, o.store.len()),
            hx.len,
        );
    }
    if s.weight_added.wrapping_sub(s.weight_removed) != o.weight_used as u64 {
        v.fail(
            "C16",
            "C16/weight/conc".into(),
            format!("WeightAdded {} - WeightRemoved {} != total weight used {}", s.weight_added, s.weight_removed, o.weight_used),
            hx.len,
        );
    }
    // puts (and upserts acting as puts) that were acknowledged as refused by admission, as the callers saw it
    let refused = hx.writes.iter().filter(|w| !w.is_delete() && matches!(w.status(), Some(St::RejNoSpace) | Some(St::RejTooHeavy))).count() as u64;
    if s.keys_rejected != refused {
        v.fail("C16", "C16/rejected/conc".into(), format!("KeysRejected {} != {} puts refused by admission", s.keys_rejected, refused), hx.len);
    }
    let exp_ratio = if lookups == 0 { 0 } else { ((s.hits as f64 / (s.hits + s.misses).max(1) as f64) * 1_000_000.0).round() as u64 };
    if s.hit_ratio_ppm != exp_ratio {
        v.fail(
            "C16",
            format!("C16/hit-ratio/workload={}", shape),
            format!("hit_ratio = {} ppm with hits {} misses {}", s.hit_ratio_ppm, s.hits, s.misses),
            hx.len,
        );
    }
    if hx.hooks.iter().any(|h| matches!(h.2, Hook::Evicted { .. })) {
        v.probes.push("eviction");
    }
    if hx.hooks.iter().any(|h| matches!(h.2, Hook::SweepExpired { .. })) {
        v.probes.push("sweep_expired_an_entry");
    }
    v.nontrivial = lookups > 0 && s.keys_added > 0;
}

/// C11: queued writes are applied exactly once, one at a time, in submission order.
pub fn c11(sc: &Scenario, hx: &Hx, chans: &[crate::exec::ChanStat], v: &mut Verdict) {
    let qctx = format!("queue={}", sc.cfg.queue);
    // one at a time: ApplyBegin / ApplyEnd alternate
    let mut open: Option<(u64, AckId)> = None;
    let mut begins: std::collections::HashMap<AckId, u32> = Default::default();
    for (s, _r, ev) in &hx.hooks {
        match ev {
            Hook::ApplyBegin { ack, .. } => {
                if let Some((s0, a0)) = open {
                    if a0 != NOBODY || *ack != NOBODY {
                        v.fail("C11", format!("C11/overlapped/{}", qctx), format!("command {:?} began at {} while {:?} (begun at {}) had not ended", ack, s, a0, s0), *s);
                    }
                }
                open = Some((*s, *ack));
                if *ack != NOBODY {
                    *begins.entry(*ack).or_insert(0) += 1;
                }
            }
            Hook::ApplyEnd { .. } => {
                open = None;
            }
            _ => {}
        }
    }
    for (ack, n) in &begins {
        if *n > 1 {
            v.fail("C11", format!("C11/applied-twice/{}", qctx), format!("the command of T{}#{} was applied {} times", ack.0, ack.1, n), hx.len);
        }
    }
    let completed = hx.phase_seq("quiescent").is_some();
    let shutdown = hx.first_shutdown_inv().is_some();
    for w in &hx.writes {
        if w.ok && completed && !shutdown {
            // an accepted call either was answered on the spot or was applied exactly once
            let immediate = w.apply_begin.is_none() && w.drained.is_none();
            if immediate {
                // an upsert is answered on the spot only when nothing is left for the worker to do:
                // it carries neither a weight nor a value (a TTL moved within the expiry index)
                let weightless_upsert = matches!(&w.op, Op::Upsert { val: None, weight: None, .. });
                let on_the_spot = matches!(w.status(), Some(St::RejExists)) || (weightless_upsert && w.status() == Some(St::Accepted));
                if !on_the_spot {
                    v.fail("C11", format!("C11/never-applied/{}", qctx), format!("{} was acknowledged {:?} but the worker never applied it", fmt_op(w), w.status()), hx.len);
                }
            }
        }
    }
    // nothing is dropped: without a shutdown no write call fails, however full the queue is
    if !shutdown {
        for w in hx.writes.iter().filter(|w| w.ret.is_some() && !w.ok && !w.refused) {
            v.fail(
                "C11",
                format!("C11/write-call-failed-without-shutdown/{}", qctx),
                format!("{} returned an error although shutdown() was never called: the write was dropped", fmt_op(w)),
                w.ret.unwrap_or(hx.len),
            );
        }
    }
    // per-thread and cross-thread order of application
    let mut queued: Vec<&WriteRec> = hx.writes.iter().filter(|w| w.apply_begin.is_some()).collect();
    queued.sort_by_key(|w| w.apply_begin.unwrap());
    for (i, a) in queued.iter().enumerate() {
        for b in queued.iter().skip(i + 1) {
            // b applied after a: violation if b's call had returned before a's began
            if let Some(bret) = b.ret {
                if bret < a.inv {
                    let class = if a.t == b.t { "per-thread-reorder" } else { "cross-thread-reorder" };
                    v.fail(
                        "C11",
                        format!("C11/{}/{}", class, qctx),
                        format!("{} returned before {} was invoked, yet it was applied later", fmt_op(b), fmt_op(a)),
                        b.apply_begin.unwrap(),
                    );
                }
            }
        }
    }
    // acknowledgement order seen through the API alone
    for (s, t, acks) in &hx.resolved {
        // acks are listed last-to-first; once a queued one is resolved every earlier queued one is
        let mut seen_resolved: Option<AckId> = None;
        for (id, resolved) in acks {
            let qd = hx.widx.get(id).map(|ix| hx.writes[*ix].queued()).unwrap_or(false);
            if !qd {
                continue;
            }
            if *resolved {
                if seen_resolved.is_none() {
                    seen_resolved = Some(*id);
                }
            } else if let Some(later) = seen_resolved {
                v.fail(
                    "C11",
                    format!("C11/ack-order/{}", qctx),
                    format!("thread {}: the acknowledgement of #{} had resolved while the earlier queued #{} had not", t, later.1, id.1),
                    *s,
                );
            }
        }
    }
    // put(k) then delete(k) without awaiting, by the only writer of k: k is absent in the end
    if completed && !shutdown {
        for k in 0..sc.cfg.keys {
            let ws: Vec<&WriteRec> = hx.writes_of_key(k).collect();
            if ws.len() >= 2 && ws.iter().all(|w| w.t == ws[0].t) {
                let last = ws[ws.len() - 1];
                let before = ws[ws.len() - 2];
                if last.is_delete() && before.is_put() && last.queued() && before.queued() {
                    if let Some((_, _, Some(val))) = hx.final_reads.iter().find(|f| f.1 == k && f.2.is_some()) {
                        v.fail(
                            "C11",
                            format!("C11/put-delete-left-present/{}", qctx),
                            format!("k{}: {} followed by {} yet the key still reads {:x} at quiescence", k, fmt_op(before), fmt_op(last), val),
                            hx.len,
                        );
                    }
                }
            }
        }
    }
    let blocked = chans.iter().any(|c| c.role == "worker" && c.send_blocked > 0);
    let deep = chans.iter().any(|c| c.role == "worker" && c.max_queued >= 3) || (sc.cfg.queue < 3 && blocked);
    if blocked {
        v.probes.push("send_blocked_on_full_command_queue");
    }
    if chans.iter().any(|c| c.role == "worker" && c.max_queued >= 3) {
        v.probes.push("three_or_more_commands_queued_together");
    }
    v.nontrivial = blocked && deep;
}

/// C15: conservation of access records and non-blocking reads.
pub fn c15(sc: &Scenario, hx: &Hx, rec: &crate::sched::SchedRecord, chans: &[crate::exec::ChanStat], v: &mut Verdict) {
    let ctx = format!("pool={},buffer={}", sc.cfg.pool, sc.cfg.buffer);
    let stalled_whole_run = sc.sched.stalls.iter().any(|s| s.role == RoleName::Consumer && s.from == 0 && s.until == u64::MAX);
    if stalled_whole_run {
        if let Some(n) = rec.forced_breaks.get("consumer") {
            if *n > 0 {
                v.fail(
                    "C15",
                    format!("C15/read-waited-for-consumer/{}", ctx),
                    format!("with the consumer withheld for the whole run, {} time(s) nothing but the consumer could run while callers were unfinished", n),
                    hx.len,
                );
            }
        }
        v.probes.push("consumer_withheld_for_whole_run");
    }
    if hx.first_shutdown_inv().is_none() {
        // with every reader back (and the consumer wherever it happens to be) each hit is accounted
        if let Some((seq, o)) = hx.obs.iter().find(|o| o.1.label == "readers-quiet") {
            let buffered: u64 = o.buffered.iter().map(|b| b.len() as u64).sum();
            let s = &o.stats;
            let hit_count: u64 = hx.reads.iter().filter(|r| r.ret < *seq).map(|r| r.vals.iter().filter(|x| x.is_some()).count() as u64).sum::<u64>();
            if hit_count != buffered + s.access_added + s.access_dropped {
                let class = if hit_count > buffered + s.access_added + s.access_dropped { "unaccounted" } else { "double-counted" };
                v.fail(
                    "C15",
                    format!("C15/{}-while-consumer-lags/{}", class, ctx),
                    format!(
                        "all readers have returned, the consumer has not caught up: {} successful reads != buffered {} + AccessAdded {} + AccessDropped {}",
                        hit_count, buffered, s.access_added, s.access_dropped
                    ),
                    *seq,
                );
            }
            let applied: u64 = hx.hooks.iter().filter(|h| h.0 < *seq).map(|h| if let Hook::BatchApplied { hashes } = &h.2 { hashes.len() as u64 } else { 0 }).sum();
            if applied < s.access_added {
                v.probes.push("records_in_flight_when_readers_were_done");
            }
        }
        if let Some(o) = hx.obs_named("post") {
            let buffered: u64 = o.buffered.iter().map(|b| b.len() as u64).sum();
            let s = &o.stats;
            // successful reads counted from the history itself (not from the CacheHits statistic)
            let hit_count: u64 = hx.reads.iter().map(|r| r.vals.iter().filter(|x| x.is_some()).count() as u64).sum::<u64>()
                + hx.final_reads.iter().filter(|f| f.2.is_some()).count() as u64
                + hx.final_puts.len() as u64 * 0;
            if hit_count != buffered + s.access_added + s.access_dropped {
                let class = if hit_count > buffered + s.access_added + s.access_dropped { "unaccounted" } else { "double-counted" };
                v.fail(
                    "C15",
                    format!("C15/{}/{}", class, ctx),
                    format!("at quiescence {} successful reads != buffered {} + AccessAdded {} + AccessDropped {}", hit_count, buffered, s.access_added, s.access_dropped),
                    hx.len,
                );
            }
            let applied: u64 = hx.hooks.iter().map(|h| if let Hook::BatchApplied { hashes } = &h.2 { hashes.len() as u64 } else { 0 }).sum();
            if applied != s.access_added {
                v.fail(
                    "C15",
                    format!("C15/applied-vs-added/{}", ctx),
                    format!("the consumer applied {} accesses but AccessAdded = {}", applied, s.access_added),
                    hx.len,
                );
            }
            // every applied or still-buffered hash belongs to a hit that happened (multiset inclusion)
            let mut hits: std::collections::HashMap<u64, i64> = Default::default();
            for r in &hx.reads {
                for (pos, k) in r.keys.iter().enumerate() {
                    if r.vals.get(pos).copied().flatten().is_some() {
                        *hits.entry(sc.cfg.hash_of(*k)).or_insert(0) += 1;
                    }
                }
            }
            for (_, k, val) in &hx.final_reads {
                if val.is_some() {
                    *hits.entry(sc.cfg.hash_of(*k)).or_insert(0) += 1;
                }
            }
            for h in hx.hooks.iter().flat_map(|h| if let Hook::BatchApplied { hashes } = &h.2 { hashes.clone() } else { vec![] }).chain(o.buffered.iter().flatten().copied()) {
                let e = hits.entry(h).or_insert(0);
                *e -= 1;
                if *e < 0 {
                    v.fail(
                        "C15",
                        format!("C15/double-counted/{}", ctx),
                        format!("access record for hash {} delivered or buffered more often than the key was hit", h),
                        hx.len,
                    );
                    break;
                }
            }
        }
    }
    let dropped = chans.iter().any(|c| c.role == "consumer" && c.try_send_full > 0);
    if dropped {
        v.probes.push("drop_path_taken");
    }
    v.nontrivial = dropped;
}

/// C12 (ACK family): manual polls with counting wakers.
pub fn c12_ack(sc: &Scenario, hx: &Hx, v: &mut Verdict) {
    use std::collections::HashMap;
    let mut by_ack: HashMap<AckId, Vec<&(u64, AckId, usize, usize, Option<St>)>> = HashMap::new();
    for p in &hx.polls {
        by_ack.entry(p.1).or_default().push(p);
    }
    let mut overlapped = false;
    let mut waker_changed = false;
    for (ack, polls) in &by_ack {
        let w = match hx.widx.get(ack) {
            Some(ix) => &hx.writes[*ix],
            None => continue,
        };
        let pollers: std::collections::BTreeSet<usize> = polls.iter().map(|p| p.2).collect();
        let ctx = format!("pollers={}", pollers.len().min(3));
        let mut first_ready: Option<St> = None;
        let mut last_pending_waker: Option<usize> = None;
        for p in polls.iter() {
            match p.4 {
                Some(St::Pending) => {
                    v.fail(
                        "C12",
                        format!("C12/poll-returned-Pending/{}", ctx),
                        format!("poll of the acknowledgement of {} by thread {} returned Ready(Pending)", fmt_op(w), p.2),
                        p.0,
                    );
                }
                Some(s) => match first_ready {
                    None => {
                        first_ready = Some(s);
                        if let Some((_, real)) = w.apply_end {
                            if real != s {
                                v.fail(
                                    "C12",
                                    format!("C12/wrong-status/{}", ctx),
                                    format!("{}: worker finished with {:?} but the first completed poll yielded {:?}", fmt_op(w), real, s),
                                    p.0,
                                );
                            }
                        } else if w.drained.is_some() && s != St::ShuttingDown {
                            v.fail("C12", format!("C12/wrong-status/{}", ctx), format!("{}: drained but poll yielded {:?}", fmt_op(w), s), p.0);
                        }
                    }
                    Some(f) => {
                        if f != s {
                            v.fail(
                                "C12",
                                format!("C12/status-changed/{}", ctx),
                                format!("{}: a poll yielded {:?} after an earlier poll had yielded {:?}", fmt_op(w), s, f),
                                p.0,
                            );
                        }
                    }
                },
                None => {
                    if first_ready.is_some() {
                        v.fail(
                            "C12",
                            format!("C12/pending-after-ready/{}", ctx),
                            format!("{}: a poll returned Pending after an earlier poll had completed", fmt_op(w)),
                            p.0,
                        );
                    }
                    if let Some(prev) = last_pending_waker {
                        if prev != p.3 {
                            waker_changed = true;
                        }
                    }
                    last_pending_waker = Some(p.3);
                }
            }
            // a poll between the worker finishing the command and done() returning
            if let (Some((e, _)), Some(a)) = (w.apply_end, w.acked) {
                if p.0 > e && p.0 < a {
                    overlapped = true;
                }
            }
        }
        // lost wake-up: the last poll before done() returned was Pending => its waker is woken
        if let Some(acked) = w.acked.or(w.drained) {
            if let Some(last_before) = polls.iter().filter(|p| p.0 < acked).last() {
                if last_before.4.is_none() && last_before.3 != crate::exec::TASK_WAKER {
                    let woken = hx.wakes.iter().any(|(s, wk)| *wk == last_before.3 && *s > last_before.0);
                    if !woken {
                        v.fail(
                            "C12",
                            format!("C12/lost-wakeup/{}", ctx),
                            format!(
                                "{}: thread {} polled last before completion (waker {}), got Pending, and that waker was never woken",
                                fmt_op(w), last_before.2, last_before.3
                            ),
                            acked,
                        );
                    }
                }
            }
        }
        // Accepted => the effect is visible to a read invoked after the poll
        if let (Some(val), true) = (w.value(), w.is_put()) {
            let only_writer = hx.writes_of_key(w.key).count() == 1;
            if only_writer && hx.first_shutdown_inv().is_none() {
                if let Some(pr) = polls.iter().find(|p| p.4 == Some(St::Accepted)) {
                    for r in &hx.reads {
                        if r.inv > pr.0 {
                            for (pos, k) in r.keys.iter().enumerate() {
                                if *k == w.key && r.vals.get(pos).copied().flatten() != Some(val) {
                                    v.fail(
                                        "C12",
                                        format!("C12/accepted-not-visible/{}", ctx),
                                        format!("{} polled Accepted at {}, yet T{}#{} {:?}(k{}) invoked afterwards returned {:x?}", fmt_op(w), pr.0, r.t, r.i, r.kind, k, r.vals.get(pos)),
                                        r.ret,
                                    );
                                }
                            }
                        }
                    }
                }
            }
        }
    }
    let _ = sc;
    if overlapped {
        v.probes.push("poll_overlapped_done");
    }
    if waker_changed {
        v.probes.push("waker_changed_between_pending_polls");
    }
    v.nontrivial = overlapped || waker_changed;
}

/// C07 (concurrent half): "put never overwrites". Replays the worker's command stream in log
/// order and tracks which keys are physically present; an Accepted put of a key that is present
/// (and not past a TTL) at that moment has overwritten a readable key.
pub fn c07_conc(_sc: &Scenario, hx: &Hx, v: &mut Verdict) {
    use std::collections::HashMap;
    if hx.first_shutdown_inv().is_some() {
        return;
    }
    // key -> (key id, has ttl, value)
    let mut present: HashMap<u32, (u64, bool, u64)> = HashMap::new();
    let mut id_key: HashMap<u64, u32> = HashMap::new();
    // ids whose removal (eviction / sweep) was logged; the removal of an entry can be logged before
    // the worker logs the end of the put that created it
    let mut removed: std::collections::HashSet<u64> = Default::default();
    // keys whose entry may have received a TTL from an in-place upsert
    let ttl_touched: std::collections::HashSet<u32> =
        hx.writes.iter().filter(|w| matches!(&w.op, Op::Upsert { ttl: Some(_), .. })).map(|w| w.key).collect();
    let mut raced = false;
    // delete() marks the entry on the caller thread when it returns: from then on the key is held
    // but not readable
    let mut marks: Vec<(u64, u32)> = hx.writes.iter().filter(|w| w.is_delete() && w.ok).filter_map(|w| w.ret.map(|r| (r, w.key))).collect();
    marks.sort();
    let mut mark_pos = 0usize;
    let mut soft: std::collections::HashSet<u32> = Default::default();
    let mut at_begin: HashMap<AckId, (Option<(u64, bool, u64)>, bool)> = HashMap::new();
    for (s, _role, ev) in &hx.hooks {
        while mark_pos < marks.len() && marks[mark_pos].0 < *s {
            if present.contains_key(&marks[mark_pos].1) {
                soft.insert(marks[mark_pos].1);
            }
            mark_pos += 1;
        }
        match ev {
            Hook::ApplyBegin { ack, .. } => {
                // what the key looked like when the worker picked the command up: a put that makes
                // room by evicting the readable incarnation of its own key has still overwritten it
                if let Some(ix) = hx.widx.get(ack) {
                    let w = &hx.writes[*ix];
                    at_begin.insert(*ack, (present.get(&w.key).copied(), soft.contains(&w.key)));
                }
            }
            Hook::ApplyEnd { ack, st } => {
                let w = match hx.widx.get(ack) {
                    Some(ix) => &hx.writes[*ix],
                    None => continue,
                };
                let kind = w.cmd_kind.as_deref().unwrap_or("");
                if kind == "Put" || kind == "PutWithTTL" {
                    if *st == St::Accepted {
                        let (before, soft_before) = at_begin.get(ack).copied().unwrap_or((present.get(&w.key).copied(), false));
                        if let Some((old_id, has_ttl, old_val)) = before.as_ref() {
                            if !*has_ttl && !ttl_touched.contains(&w.key) && !soft.contains(&w.key) && !soft_before {
                                v.fail(
                                    "C07",
                                    format!("C07/overwrote-readable/conc,variant={}", opname(&w.op)),
                                    format!(
                                        "{} was acknowledged Accepted while k{} was held (id {}, value {:x}, no TTL): the readable key was overwritten",
                                        fmt_op(w), w.key, old_id, old_val
                                    ),
                                    *s,
                                );
                            }
                        }
                        let ttl = kind == "PutWithTTL";
                        soft.remove(&w.key);
                        if !removed.contains(&w.key_id) {
                            present.insert(w.key, (w.key_id, ttl, w.value().unwrap_or(0)));
                        } else {
                            present.remove(&w.key);
                        }
                        id_key.insert(w.key_id, w.key);
                    } else if *st == St::RejExists {
                        raced = true; // the worker-side existence check fired: a stale caller-side check
                    } else if *st == St::RejNoKey {
                        // a put is refused because the key exists, is too heavy, or finds no room:
                        // never because it "does not exist"
                        v.fail(
                            "C07",
                            format!("C07/put-rejected-with-a-reason-no-put-can-have/conc,variant={}", opname(&w.op)),
                            format!("{} was acknowledged Rejected(KeyDoesNotExist); k{} was {} when the worker picked it up", fmt_op(w), w.key, if at_begin.get(ack).map(|b| b.0.is_some()).unwrap_or(false) { "held" } else { "absent" }),
                            *s,
                        );
                    }
                } else if kind == "Delete" && *st == St::Accepted {
                    present.remove(&w.key);
                    soft.remove(&w.key);
                }
            }
            Hook::Evicted { id } | Hook::SweepExpired { id, .. } => {
                removed.insert(*id);
                // the evict hook deletes the store entry *by key*, whatever incarnation is stored
                if let Some(k) = id_key.get(id) {
                    present.remove(k);
                    soft.remove(k);
                }
            }
            _ => {}
        }
    }
    // epilogue probe: keys that read as absent at quiescence must not be "already existing"
    if let Some(o) = hx.obs_named("pre") {
        for (k, st) in &hx.final_puts {
            if *st == St::RejExists {
                let entry = o.store.iter().find(|s| s.0 == *k);
                let state = match entry {
                    Some((_, _, _, true)) => "soft-deleted-with-no-delete-pending",
                    Some((_, _, Some(e), false)) if o.clock > *e => "expired-unswept",
                    Some(_) => "present-but-unreadable",
                    None => "absent",
                };
                let sig = if state == "expired-unswept" {
                    "C07/absent-rejected-as-existing/state=expired-unswept,op=put".to_string()
                } else {
                    format!("C07/absent-rejected-as-existing/conc,state={}", state)
                };
                v.fail(
                    "C07",
                    sig,
                    format!("at quiescence k{} reads as absent ({}) yet put_with_weight is rejected with KeyAlreadyExists", k, state),
                    hx.len,
                );
            }
        }
    }
    // a put made after a delete of the key was *acknowledged* (with whatever status: commands are
    // answered in submission order, so every earlier delete is complete too) is never refused as
    // "already exists", provided no put / upsert of the key could have been applied in between
    let mut judged_after_delete = false;
    for p in hx.writes.iter().filter(|w| w.is_put() && w.status() == Some(St::RejExists)) {
        let d = hx
            .writes
            .iter()
            .filter(|d| d.is_delete() && d.key == p.key && d.ok)
            .filter(|d| matches!(d.status(), Some(St::Accepted) | Some(St::RejNoKey)))
            .filter(|d| d.done_seq().map(|a| a < p.inv).unwrap_or(false))
            .max_by_key(|d| d.inv);
        let d = match d {
            Some(d) => d,
            None => continue,
        };
        let p_ret = p.ret.unwrap_or(u64::MAX);
        let quiet = hx.writes.iter().filter(|w| w.key == p.key && !w.is_delete() && !(w.t == p.t && w.i == p.i)).all(|w| {
            let before = if w.refused || (w.ret.is_some() && !w.ok) {
                w.ret.map(|r| r < d.inv).unwrap_or(false)
            } else if w.upsert_in_place() && w.done_seq().is_none() {
                false
            } else {
                w.done_seq().map(|x| x < d.inv).unwrap_or(false)
            };
            before || w.inv > p_ret
        });
        if !quiet {
            continue;
        }
        judged_after_delete = true;
        v.fail(
            "C07",
            "C07/absent-rejected-as-existing/conc,state=deleted-and-acknowledged".to_string(),
            format!(
                "{} was refused with KeyAlreadyExists although {} had been acknowledged ({:?}) before the put began and nothing else wrote k{} in between",
                fmt_op(p),
                fmt_op(d),
                d.status().unwrap(),
                p.key
            ),
            p.ret.unwrap_or(hx.len),
        );
    }
    if hx.writes.iter().any(|p| {
        p.is_put()
            && hx.writes.iter().any(|d| d.is_delete() && d.key == p.key && d.done_seq().map(|a| a < p.inv).unwrap_or(false))
            && hx.writes.iter().any(|d0| d0.is_delete() && d0.key == p.key && d0.queued() && d0.acked.map(|a| a > p.inv).unwrap_or(true))
    }) {
        v.probes.push("put_after_acknowledged_delete_with_older_delete_still_queued");
    }
    let _ = judged_after_delete;
    // in-place upserts change values of present keys; they do not change presence
    if raced {
        v.probes.push("worker_side_existence_check_fired");
    }
    v.nontrivial = raced;
}

/// C08 (concurrent half): unawaited upserts by the only writer of a key. At quiescence the charged
/// weight and the value of the key are those of the owner's last effective operation.
const D12: &str = "C08/in-place-upsert-overtook-queued-put-or-delete/conc";

pub fn c08_conc(sc: &Scenario, hx: &Hx, v: &mut Verdict) {
    if hx.first_shutdown_inv().is_some() {
        return;
    }
    let o = match hx.obs_named("pre") {
        Some(o) => o,
        None => return,
    };
    let mut unawaited_pair = false;
    for k in 0..sc.cfg.keys {
        let mut ws: Vec<&WriteRec> = hx.writes_of_key(k).collect();
        if ws.is_empty() || ws.iter().any(|w| w.t != ws[0].t) {
            continue;
        }
        ws.sort_by_key(|w| w.inv);
        // expected (weight, value) after replaying the owner's operations in program order
        let mut cur: Option<(i64, u64)> = None;
        let mut known = true;
        // An in-place upsert takes effect on the caller thread at once. If an earlier Put / Delete of
        // the same key by the same thread is still queued at that moment, the upsert overtakes it:
        // the implementation no longer applies the owner's writes in submission order (finding D12,
        // of which "upsert on an entry marked deleted" is one case). Program order stays the
        // expectation; a mismatch on such a key is reported under D12's signature.
        let mut overtook = false;
        // C08 only speaks about what upserts leave behind
        let mut last_effective_is_upsert = false;
        for (i, w) in ws.iter().enumerate() {
            if i > 0 {
                // was the previous command still in flight when this call was made?
                let prev = ws[i - 1];
                if prev.queued() && prev.acked.map(|a| a > w.inv).unwrap_or(true) {
                    unawaited_pair = true;
                }
            }
            if w.refused {
                continue; // refused on the documented precondition: no effect
            }
            let st = match w.status() {
                Some(s) => s,
                None => {
                    known = false;
                    break;
                }
            };
            match &w.op {
                Op::Put { val, weight, ttl, .. } => {
                    if ttl.is_some() {
                        known = false;
                        break;
                    }
                    if st == St::Accepted {
                        cur = Some((weight.unwrap_or_else(|| weight_of(&sc.cfg.weight_fn, k, *val, false)), *val));
                        last_effective_is_upsert = false;
                    } else if st != St::RejExists {
                        known = false;
                        break;
                    }
                }
                Op::Upsert { val, weight, ttl, remove_ttl, .. } => {
                    if ttl.is_some() || *remove_ttl {
                        known = false;
                        break;
                    }
                    let put_like = matches!(w.cmd_kind.as_deref(), Some("Put") | Some("PutWithTTL"));
                    if put_like && cur.is_some() && !overtook && ws[..i].iter().all(|p| !p.queued() || p.apply_end.map(|e| e.0 < w.inv).unwrap_or(false)) {
                        // every earlier operation of the only writer had been applied and left the
                        // key in the cache (nothing can be evicted here): it was readable when the
                        // upsert was called, so the upsert had to update it in place
                        v.fail(
                            "C08",
                            "C08/upsert-of-readable-key-took-the-put-path/conc".to_string(),
                            format!(
                                "k{}: {} found the key absent (it was sent as a {} and answered {:?}) although the owner's earlier operations were all applied and leave the key in the cache",
                                k,
                                fmt_op(w),
                                w.cmd_kind.as_deref().unwrap_or("?"),
                                st
                            ),
                            w.ret.unwrap_or(hx.len),
                        );
                    }
                    if put_like {
                        if st == St::Accepted {
                            let v0 = val.unwrap_or(0);
                            cur = Some((weight.unwrap_or_else(|| weight_of(&sc.cfg.weight_fn, k, v0, false)), v0));
                            last_effective_is_upsert = true;
                        } else if st != St::RejExists {
                            known = false;
                            break;
                        }
                    } else {
                        // in place
                        let pending_conflict = ws[..i].iter().any(|p| {
                            matches!(p.cmd_kind.as_deref(), Some("Put") | Some("PutWithTTL") | Some("Delete"))
                                && p.apply_end.map(|e| e.0 > w.inv).unwrap_or(true)
                        });
                        if pending_conflict {
                            overtook = true;
                        }
                        match cur {
                            Some((cw, cv)) => {
                                let nv = val.unwrap_or(cv);
                                let nw = weight.or_else(|| val.map(|x| weight_of(&sc.cfg.weight_fn, k, x, false))).unwrap_or(cw);
                                cur = Some((nw, nv));
                                last_effective_is_upsert = true;
                            }
                            None => match (pending_conflict, val, st) {
                                // the key read as absent: the upsert has to behave like the corresponding put
                                (true, Some(x), St::Accepted) => {
                                    cur = Some((weight.unwrap_or_else(|| weight_of(&sc.cfg.weight_fn, k, *x, false)), *x));
                                    last_effective_is_upsert = true;
                                }
                                _ => {
                                    known = false;
                                    break;
                                }
                            },
                        }
                    }
                }
                Op::Delete { .. } => {
                    if st == St::Accepted || st == St::RejNoKey {
                        cur = None;
                        last_effective_is_upsert = false;
                    } else {
                        known = false;
                        break;
                    }
                }
                _ => {}
            }
        }
        if !known || !last_effective_is_upsert {
            continue;
        }
        let entry = o.store.iter().find(|s| s.0 == k);
        match (cur, entry) {
            (Some((w_exp, v_exp)), Some(e)) => {
                let charged = o.weights.iter().find(|w| w.0 == e.1).map(|w| w.3);
                if charged != Some(w_exp) {
                    v.fail(
                        "C08",
                        if overtook { D12.to_string() } else { "C08/weight-not-applied/conc".to_string() },
                        format!("k{}: after the owner's operations the charged weight must be {}, the cache charges {:?}", k, w_exp, charged),
                        hx.len,
                    );
                }
                if let Some((_, _, got)) = hx.final_reads.iter().find(|f| f.1 == k) {
                    if *got != Some(v_exp) {
                        v.fail(
                            "C08",
                            if overtook { D12.to_string() } else { "C08/value-not-applied/conc".to_string() },
                            format!("k{}: the owner's last effective value is {:x}, the cache returns {:x?}", k, v_exp, got),
                            hx.len,
                        );
                    }
                }
            }
            (Some((_, v_exp)), None) => {
                v.fail(
                    "C08",
                    if overtook { D12.to_string() } else { "C08/accepted-but-lost/conc".to_string() },
                    format!("k{}: the owner's operations leave value {:x} in the cache (nothing can be evicted), but the key is gone", k, v_exp),
                    hx.len,
                );
            }
            (None, Some(e)) => {
                v.fail(
                    "C08",
                    if overtook { D12.to_string() } else { "C08/unexpected-entry/conc".to_string() },
                    format!("k{}: the owner's operations leave the key absent, but the store holds id {}", k, e.1),
                    hx.len,
                );
            }
            (None, None) => {}
        }
    }
    if unawaited_pair {
        v.probes.push("upsert_issued_while_previous_command_of_same_key_in_flight");
    }
    v.nontrivial = unawaited_pair;
}
