//! Post-hoc oracles over a recorded history. Each returns violations of *its* property only and
//! uses nothing but "definitely" relations (DESIGN.md section 4.3), so that it never demands more
//! than the property states.
use crate::exec::Violation;
use crate::hist::*;
use crate::hx::*;
use crate::scenario::*;

pub struct Verdict {
    pub violations: Vec<Violation>,
    /// the run exercised what the property is about (per-property rule, see DESIGN.md section 5)
    pub nontrivial: bool,
    /// reach probes hit by this run
    pub probes: Vec<&'static str>,
}

impl Verdict {
    pub fn new() -> Verdict {
        Verdict { violations: vec![], nontrivial: false, probes: vec![] }
    }
    pub fn fail(&mut self, property: &str, signature: String, message: String, event: u64) {
        self.violations.push(Violation { property: property.to_string(), signature, message, event });
    }
}

fn fmt_op(w: &WriteRec) -> String {
    format!("T{}#{} {}", w.t, w.i, w.op.short())
}

/// C01: every observation of the total weight lies in [0, limit].
pub fn c01(sc: &Scenario, hx: &Hx, v: &mut Verdict) {
    let limit = sc.cfg.weight;
    let mut inflight_obs = false;
    for (rec, w) in &hx.weights {
        if *w < 0 || *w > limit {
            let class = if *w < 0 { "negative" } else { "over-limit" };
            v.fail(
                "C01",
                format!("C01/{}/conc", class),
                format!("T{}#{} total_weight_used() = {} with limit {}", rec.t, rec.i, w, limit),
                rec.ret,
            );
        }
        // non-trivial: taken while some command was queued or being applied
        if hx.writes.iter().any(|wr| {
            wr.queued() && wr.ret.map(|r| r < rec.ret).unwrap_or(false) && wr.acked.map(|a| a > rec.inv).unwrap_or(true)
        }) {
            inflight_obs = true;
        }
    }
    for (s, o) in &hx.obs {
        if o.weight_used < 0 || o.weight_used > limit {
            v.fail(
                "C01",
                "C01/over-limit/quiescent".to_string(),
                format!("at quiescence total_weight_used() = {} with limit {}", o.weight_used, limit),
                *s,
            );
        }
    }
    let evicted = hx.hooks.iter().any(|h| matches!(h.2, Hook::Evicted { .. }));
    let rejected = hx.writes.iter().any(|w| matches!(w.apply_end, Some((_, St::RejNoSpace)) | Some((_, St::RejTooHeavy))));
    if evicted {
        v.probes.push("eviction");
    }
    if rejected {
        v.probes.push("admission_reject");
    }
    if inflight_obs {
        v.probes.push("observation_while_command_in_flight");
    }
    v.nontrivial = (evicted || rejected) && inflight_obs;
}

/// C02: a read returns only a value written to that key, not rejected, not definitely superseded
/// or deleted before the read began; all read variants agree at quiescence.
pub fn c02(sc: &Scenario, hx: &Hx, v: &mut Verdict) {
    let mut overlapped = false;
    for r in &hx.reads {
        for (pos, k) in r.keys.iter().enumerate() {
            let val = match r.vals.get(pos).copied().flatten() {
                Some(x) => x,
                None => continue,
            };
            let ctx = format!("variant={:?},hash={:?}", r.kind, sc.cfg.hash);
            let wi = match hx.by_token.get(&val) {
                Some(wi) => *wi,
                None => {
                    v.fail(
                        "C02",
                        format!("C02/unwritten-value/{}", ctx),
                        format!("T{}#{} {:?}(k{}) returned {:x} which nobody wrote", r.t, r.i, r.kind, k, val),
                        r.ret,
                    );
                    continue;
                }
            };
            let w = &hx.writes[wi];
            if w.key != *k {
                v.fail(
                    "C02",
                    format!("C02/foreign-value/{}", ctx),
                    format!("T{}#{} {:?}(k{}) returned {:x}, written to k{} by {}", r.t, r.i, r.kind, k, val, w.key, fmt_op(w)),
                    r.ret,
                );
                continue;
            }
            if w.inv > r.ret {
                v.fail(
                    "C02",
                    format!("C02/value-from-the-future/{}", ctx),
                    format!("T{}#{} {:?}(k{}) returned {:x} before {} was invoked", r.t, r.i, r.kind, k, val, fmt_op(w)),
                    r.ret,
                );
                continue;
            }
            if let (Some(st), false) = (w.status(), w.upsert_in_place()) {
                if st.is_rejected() || st == St::ShuttingDown {
                    v.fail(
                        "C02",
                        format!("C02/rejected-write-visible/{}", ctx),
                        format!("T{}#{} {:?}(k{}) returned {:x} of {} which was acknowledged {:?}", r.t, r.i, r.kind, k, val, fmt_op(w), st),
                        r.ret,
                    );
                    continue;
                }
            }
            // superseded / deleted: some other effective write or delete of k definitely after w and
            // definitely complete before the read was invoked
            let w_done = match w.done_seq() {
                Some(d) => d,
                None => {
                    // an in-place upsert's value is in the store when the call returns
                    if w.upsert_in_place() { w.ret.unwrap_or(u64::MAX) } else { u64::MAX }
                }
            };
            for w2 in hx.writes_of_key(*k) {
                if w2.t == w.t && w2.i == w.i {
                    continue;
                }
                let writes_value = w2.value().is_some();
                if !(writes_value || w2.is_delete()) {
                    continue;
                }
                if w2.inv <= w_done {
                    continue; // not definitely after w
                }
                // effective and complete?
                let complete = if w2.is_delete() {
                    // hidden once delete() returned -- provided it did something, which we only know
                    // for sure if it was acknowledged as accepted
                    match w2.status() {
                        Some(St::Accepted) => w2.ret,
                        _ => None,
                    }
                } else if w2.upsert_in_place() {
                    w2.ret
                } else {
                    match w2.status() {
                        Some(St::Accepted) => w2.done_seq(),
                        _ => None,
                    }
                };
                if let Some(c) = complete {
                    if c < r.inv {
                        let class = if w2.is_delete() { "deleted-value" } else { "superseded-value" };
                        v.fail(
                            "C02",
                            format!("C02/{}/{}", class, ctx),
                            format!(
                                "T{}#{} {:?}(k{}) returned {:x} of {}, but {} came definitely later and was complete before the read began",
                                r.t, r.i, r.kind, k, val, fmt_op(w), fmt_op(w2)
                            ),
                            r.ret,
                        );
                        break;
                    }
                }
            }
        }
        // non-trivial: the read overlaps a write / delete of one of its keys
        for k in &r.keys {
            if hx.writes_of_key(*k).any(|w| {
                let end = w.acked.or(w.ret).unwrap_or(u64::MAX);
                w.inv < r.ret && end > r.inv
            }) {
                overlapped = true;
            }
        }
    }
    // agreement of the seven variants at quiescence
    for k in 0..sc.cfg.keys {
        let vals: Vec<(ReadKind, Option<u64>)> = hx.final_reads.iter().filter(|f| f.1 == k).map(|f| (f.0, f.2)).collect();
        if let Some(first) = vals.first() {
            if let Some(other) = vals.iter().find(|x| x.1 != first.1) {
                v.fail(
                    "C02",
                    format!("C02/variants-disagree/{:?}-vs-{:?}", first.0, other.0),
                    format!("at quiescence k{}: {:?} -> {:?} but {:?} -> {:?}", k, first.0, first.1, other.0, other.1),
                    hx.len,
                );
            }
        }
    }
    if overlapped {
        v.probes.push("read_overlapped_write_of_same_key");
    }
    if hx.hooks.iter().any(|h| matches!(h.2, Hook::Evicted { .. })) {
        v.probes.push("eviction");
    }
    v.nontrivial = overlapped;
}

/// C12 (passive part, armed on every awaited acknowledgement): never Pending, equals the outcome
/// the worker computed, ShuttingDown iff drained.
pub fn c12_passive(hx: &Hx, v: &mut Verdict) {
    for w in &hx.writes {
        if let Some((s, st, by, polls)) = w.ack_obs {
            let pollers = if by == usize::MAX { "epilogue" } else { "caller" };
            if st == St::Pending {
                v.fail(
                    "C12",
                    "C12/poll-returned-Pending/await".to_string(),
                    format!("awaiting the acknowledgement of {} ({}) yielded Pending after {} pending polls", fmt_op(w), pollers, polls),
                    s,
                );
                continue;
            }
            if let Some((_, real)) = w.apply_end {
                if real != st {
                    v.fail(
                        "C12",
                        "C12/wrong-status/await".to_string(),
                        format!("{}: worker finished with {:?} but the acknowledgement yielded {:?}", fmt_op(w), real, st),
                        s,
                    );
                }
            } else if w.drained.is_some() && st != St::ShuttingDown {
                v.fail(
                    "C12",
                    "C12/wrong-status/drained".to_string(),
                    format!("{}: drained behind Shutdown but the acknowledgement yielded {:?}", fmt_op(w), st),
                    s,
                );
            }
        }
    }
}

/// C13: after shutdown() returned every write errs and every read is absent/empty; every
/// acknowledgement resolves to its real outcome (if the command ran) or ShuttingDown.
pub fn c13(_sc: &Scenario, hx: &Hx, v: &mut Verdict) {
    let sd_ret = match hx.first_shutdown_ret() {
        Some(s) => s,
        None => {
            return;
        }
    };
    let conc = if hx.shutdowns.len() > 1 { "multi" } else { "single" };
    for w in &hx.writes {
        if w.inv > sd_ret && w.ok {
            v.fail(
                "C13",
                format!("C13/write-ok-after-shutdown/op={}", opname(&w.op)),
                format!("{} was invoked after shutdown() had returned and did not return an error", fmt_op(w)),
                w.ret.unwrap_or(w.inv),
            );
        }
        if w.ok {
            match w.ack_obs {
                None => v.fail(
                    "C13",
                    "C13/ack-never-resolved".to_string(),
                    format!("{}: acknowledgement was never observed resolved", fmt_op(w)),
                    hx.len,
                ),
                Some((s, st, _, _)) => {
                    if st == St::Pending {
                        v.fail("C13", "C13/ack-pending".to_string(), format!("{} resolved to Pending", fmt_op(w)), s);
                    } else if let Some((_, real)) = w.apply_end {
                        if st != real {
                            v.fail(
                                "C13",
                                format!("C13/ack-wrong-status/ran,shutdowns={}", conc),
                                format!("{} ran with outcome {:?} but its acknowledgement says {:?}", fmt_op(w), real, st),
                                s,
                            );
                        }
                    } else if w.queued() && st != St::ShuttingDown {
                        v.fail(
                            "C13",
                            format!("C13/ack-wrong-status/not-run,shutdowns={}", conc),
                            format!("{} never ran (queued behind Shutdown) but its acknowledgement says {:?}", fmt_op(w), st),
                            s,
                        );
                    } else if !w.queued() && st == St::ShuttingDown {
                        // answered on the spot with ShuttingDown? the API only does that through Err
                        v.fail(
                            "C13",
                            "C13/ack-wrong-status/immediate".to_string(),
                            format!("{} was answered on the spot with ShuttingDown", fmt_op(w)),
                            s,
                        );
                    }
                }
            }
        }
    }
    for r in &hx.reads {
        if r.inv > sd_ret {
            if let Some(pos) = r.vals.iter().position(|x| x.is_some()) {
                v.fail(
                    "C13",
                    format!("C13/read-some-after-shutdown/variant={:?}", r.kind),
                    format!("T{}#{} {:?}(k{}) invoked after shutdown() returned yielded {:x}", r.t, r.i, r.kind, r.keys[pos], r.vals[pos].unwrap()),
                    r.ret,
                );
            }
        }
    }
    let queued_behind = hx.writes.iter().any(|w| w.drained.is_some());
    let raced = hx.writes.iter().any(|w| {
        let sd_inv = hx.first_shutdown_inv().unwrap_or(u64::MAX);
        w.inv < sd_ret && w.ret.unwrap_or(u64::MAX) > sd_inv
    });
    if queued_behind {
        v.probes.push("command_queued_behind_shutdown");
    }
    if raced {
        v.probes.push("write_overlapped_shutdown");
    }
    if hx.shutdowns.len() > 1 {
        v.probes.push("multiple_shutdown_calls");
    }
    v.nontrivial = queued_behind || raced;
}

pub fn opname(op: &Op) -> &'static str {
    match op {
        Op::Put { weight, ttl, .. } => match (weight.is_some(), ttl.is_some()) {
            (false, false) => "put",
            (true, false) => "put_with_weight",
            (false, true) => "put_with_ttl",
            (true, true) => "put_with_weight_and_ttl",
        },
        Op::Upsert { .. } => "put_or_update",
        Op::Delete { .. } => "delete",
        Op::Read { .. } => "read",
        Op::Shutdown => "shutdown",
        _ => "other",
    }
}
