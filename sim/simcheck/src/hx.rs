//! Index over a recorded history: one record per write / read / observation with the sequence
//! numbers of its invoke, return, acknowledgement and (from the hook events) application.
use crate::hist::*;
use crate::scenario::*;
use std::collections::HashMap;

#[derive(Clone, Debug)]
pub struct WriteRec {
    pub t: usize,
    pub i: usize,
    pub op: Op,
    pub key: u32,
    pub inv: u64,
    pub ret: Option<u64>,
    pub ok: bool,
    pub clock_inv: Dur,
    pub clock_ret: Dur,
    /// (seq at which the resolution was observed, status, observer, pending polls before)
    pub ack_obs: Option<(u64, St, usize, u32)>,
    /// worker hook events for this acknowledgement
    pub apply_begin: Option<u64>,
    pub apply_end: Option<(u64, St)>,
    pub acked: Option<u64>,
    pub drained: Option<u64>,
    pub cmd_kind: Option<String>,
    pub key_id: u64,
    /// the call was refused on a documented precondition (no effect)
    pub refused: bool,
}

impl WriteRec {
    pub fn is_put(&self) -> bool {
        matches!(self.op, Op::Put { .. })
    }
    pub fn is_upsert(&self) -> bool {
        matches!(self.op, Op::Upsert { .. })
    }
    pub fn is_delete(&self) -> bool {
        matches!(self.op, Op::Delete { .. })
    }
    /// value this write tries to store
    pub fn value(&self) -> Option<u64> {
        match &self.op {
            Op::Put { val, .. } => Some(*val),
            Op::Upsert { val, .. } => *val,
            _ => None,
        }
    }
    /// the call reached the command queue (it has worker events or was drained)
    pub fn queued(&self) -> bool {
        self.apply_begin.is_some() || self.drained.is_some()
    }
    /// final status if anyone observed it (the placeholder `Pending` -- C12's business -- counts as
    /// "not known")
    pub fn status(&self) -> Option<St> {
        self.ack_obs.map(|a| a.1).filter(|s| *s != St::Pending)
    }
    /// sequence number from which the write is *definitely complete* for its client:
    /// the acknowledgement was observed resolved. None = never observed.
    pub fn done_seq(&self) -> Option<u64> {
        self.ack_obs.map(|a| a.0)
    }
    /// upsert that found the key and updated it in place on the caller thread
    pub fn upsert_in_place(&self) -> bool {
        self.is_upsert()
            && self.ok
            && !matches!(self.cmd_kind.as_deref(), Some("Put") | Some("PutWithTTL"))
            && self.drained.is_none()
    }
}

#[derive(Clone, Debug)]
pub struct ReadRec {
    pub t: usize,
    pub i: usize,
    pub kind: ReadKind,
    pub keys: Vec<u32>,
    pub vals: Vec<Option<u64>>,
    pub complete: bool,
    pub inv: u64,
    pub ret: u64,
    pub clock_inv: Dur,
    pub clock_ret: Dur,
}

#[derive(Clone, Debug)]
pub struct SimpleRec {
    pub t: usize,
    pub i: usize,
    pub inv: u64,
    pub ret: u64,
    pub clock_inv: Dur,
}

#[derive(Default, Clone, Debug)]
pub struct Hx {
    pub writes: Vec<WriteRec>,
    pub widx: HashMap<AckId, usize>,
    pub reads: Vec<ReadRec>,
    pub weights: Vec<(SimpleRec, i64)>,
    pub stats: Vec<(SimpleRec, Stats)>,
    pub shutdowns: Vec<SimpleRec>,
    pub advances: Vec<(SimpleRec, Dur, bool)>,
    pub ticks: Vec<(SimpleRec, usize)>,
    pub by_token: HashMap<u64, usize>,
    pub obs: Vec<(u64, Obs)>,
    pub final_reads: Vec<(ReadKind, u32, Option<u64>)>,
    pub hooks: Vec<(u64, String, Hook)>,
    pub polls: Vec<(u64, AckId, usize, usize, Option<St>)>,
    pub wakes: Vec<(u64, usize)>,
    pub resolved: Vec<(u64, usize, Vec<(AckId, bool)>)>,
    pub phases: Vec<(u64, String)>,
    pub len: u64,
    /// operations that were invoked but never returned (the run ended abnormally)
    pub unreturned: Vec<(usize, usize, Op, u64)>,
    /// (sequence number, simulated clock) of every clock-bearing item, in log order
    pub clocks: Vec<(u64, Dur)>,
    pub final_puts: Vec<(u32, St)>,
}

pub fn key_of_token(v: u64) -> u32 {
    (v & 0xffff) as u32
}

impl Hx {
    pub fn build(log: &[Item]) -> Hx {
        let mut hx = Hx { len: log.len() as u64, ..Default::default() };
        let mut open: HashMap<(usize, usize), (Op, u64, Dur)> = HashMap::new();
        for (s, item) in log.iter().enumerate() {
            let s = s as u64;
            match item {
                Item::Invoke { t, i, op, clock } => {
                    hx.clocks.push((s, *clock));
                    open.insert((*t, *i), (op.clone(), s, *clock));
                    if op.is_write() {
                        let key = op.key().unwrap();
                        let w = WriteRec {
                            t: *t,
                            i: *i,
                            op: op.clone(),
                            key,
                            inv: s,
                            ret: None,
                            ok: false,
                            clock_inv: *clock,
                            clock_ret: *clock,
                            ack_obs: None,
                            apply_begin: None,
                            apply_end: None,
                            acked: None,
                            drained: None,
                            cmd_kind: None,
                            key_id: 0,
                            refused: false,
                        };
                        if let Some(v) = w.value() {
                            hx.by_token.insert(v, hx.writes.len());
                        }
                        hx.widx.insert((*t, *i), hx.writes.len());
                        hx.writes.push(w);
                    }
                }
                Item::Return { t, i, res, clock } => {
                    hx.clocks.push((s, *clock));
                    let (op, inv, clock_inv) = match open.remove(&(*t, *i)) {
                        Some(x) => x,
                        None => continue,
                    };
                    let simple = SimpleRec { t: *t, i: *i, inv, ret: s, clock_inv };
                    match res {
                        Res::Write { ok } => {
                            if let Some(ix) = hx.widx.get(&(*t, *i)) {
                                let w = &mut hx.writes[*ix];
                                w.ret = Some(s);
                                w.ok = *ok;
                                w.clock_ret = *clock;
                            }
                        }
                        Res::Refused => {
                            if let Some(ix) = hx.widx.get(&(*t, *i)) {
                                let w = &mut hx.writes[*ix];
                                w.ret = Some(s);
                                w.ok = false;
                                w.refused = true;
                                w.clock_ret = *clock;
                            }
                        }
                        Res::Read { vals, complete } => {
                            if let Op::Read { kind, keys } = op {
                                hx.reads.push(ReadRec {
                                    t: *t,
                                    i: *i,
                                    kind,
                                    keys,
                                    vals: vals.clone(),
                                    complete: *complete,
                                    inv,
                                    ret: s,
                                    clock_inv,
                                    clock_ret: *clock,
                                });
                            }
                        }
                        Res::Weight(w) => hx.weights.push((simple, *w)),
                        Res::Stats(st) => hx.stats.push((simple, st.clone())),
                        Res::Tick { delivered } => hx.ticks.push((simple, *delivered)),
                        Res::Unit => match op {
                            Op::Shutdown => hx.shutdowns.push(simple),
                            Op::Advance(d) => hx.advances.push((simple, d, true)),
                            Op::Rewind(d) => hx.advances.push((simple, d, false)),
                            _ => {}
                        },
                    }
                }
                Item::AckObserved { ack, by, st, polls } => {
                    if let Some(ix) = hx.widx.get(ack) {
                        let w = &mut hx.writes[*ix];
                        if w.ack_obs.is_none() {
                            w.ack_obs = Some((s, *st, *by, *polls));
                        }
                    }
                }
                Item::Polled { ack, by, waker, res } => hx.polls.push((s, *ack, *by, *waker, *res)),
                Item::Woken { waker } => hx.wakes.push((s, *waker)),
                Item::Resolved { t, acks } => hx.resolved.push((s, *t, acks.clone())),
                Item::Hook { role, ev } => {
                    match ev {
                        Hook::ApplyBegin { ack, kind, id } => {
                            if let Some(ix) = hx.widx.get(ack) {
                                let w = &mut hx.writes[*ix];
                                w.apply_begin = Some(s);
                                w.cmd_kind = Some(kind.clone());
                                w.key_id = *id;
                            }
                        }
                        Hook::ApplyEnd { ack, st } => {
                            if let Some(ix) = hx.widx.get(ack) {
                                hx.writes[*ix].apply_end = Some((s, *st));
                            }
                        }
                        Hook::Acked { ack } => {
                            if let Some(ix) = hx.widx.get(ack) {
                                hx.writes[*ix].acked = Some(s);
                            }
                        }
                        Hook::Drained { ack } => {
                            if let Some(ix) = hx.widx.get(ack) {
                                hx.writes[*ix].drained = Some(s);
                            }
                        }
                        _ => {}
                    }
                    hx.hooks.push((s, role.clone(), ev.clone()));
                }
                Item::FinalRead { kind, key, val } => hx.final_reads.push((*kind, *key, *val)),
                Item::Obs(o) => hx.obs.push((s, o.clone())),
                Item::Phase(p) => hx.phases.push((s, p.clone())),
                Item::FinalPut { key, st } => hx.final_puts.push((*key, *st)),
                Item::WeightAfterAck { .. } => {}
            }
        }
        for ((t, i), (op, inv, _)) in open {
            hx.unreturned.push((t, i, op, inv));
        }
        hx.unreturned.sort_by_key(|x| x.3);
        hx
    }

    /// Lower bound of the simulated clock at `seq` (valid while the clock never moves backwards):
    /// the clock recorded by the last clock-bearing item at or before `seq`.
    pub fn clock_lo(&self, seq: u64) -> Dur {
        let pos = self.clocks.partition_point(|c| c.0 <= seq);
        if pos == 0 {
            self.clocks.first().map(|c| c.1).unwrap_or_default()
        } else {
            self.clocks[pos - 1].1
        }
    }

    /// Upper bound of the simulated clock at `seq`: the clock recorded by the first clock-bearing
    /// item at or after `seq` (the last one if there is none).
    pub fn clock_hi(&self, seq: u64) -> Dur {
        let pos = self.clocks.partition_point(|c| c.0 < seq);
        if pos >= self.clocks.len() {
            self.clocks.last().map(|c| c.1).unwrap_or_default()
        } else {
            self.clocks[pos].1
        }
    }

    pub fn phase_seq(&self, name: &str) -> Option<u64> {
        self.phases.iter().find(|p| p.1 == name).map(|p| p.0)
    }

    pub fn obs_named(&self, label: &str) -> Option<&Obs> {
        self.obs.iter().find(|o| o.1.label == label).map(|o| &o.1)
    }

    pub fn first_shutdown_ret(&self) -> Option<u64> {
        self.shutdowns.iter().map(|s| s.ret).min()
    }

    pub fn first_shutdown_inv(&self) -> Option<u64> {
        self.shutdowns.iter().map(|s| s.inv).min()
    }

    pub fn writes_of_key(&self, k: u32) -> impl Iterator<Item = &WriteRec> {
        self.writes.iter().filter(move |w| w.key == k)
    }
}
