//! Scenario = configuration + per-thread programs + schedule/fault plan. Plain data, serialisable:
//! a replay file is a scenario with an explicit choice list.
use serde::{Deserialize, Serialize};
use std::time::Duration;

#[derive(Serialize, Deserialize, Clone, Copy, Debug, PartialEq, Eq, Hash, PartialOrd, Ord, Default)]
pub struct Dur {
    pub s: u64,
    pub n: u32,
}

impl Dur {
    pub fn from_nanos(n: u64) -> Dur {
        Dur { s: n / 1_000_000_000, n: (n % 1_000_000_000) as u32 }
    }
    pub fn secs(s: u64) -> Dur {
        Dur { s, n: 0 }
    }
    pub fn millis(ms: u64) -> Dur {
        Dur::from_nanos(ms * 1_000_000)
    }
    pub fn to_std(self) -> Duration {
        Duration::new(self.s, self.n)
    }
    pub fn from_std(d: Duration) -> Dur {
        Dur { s: d.as_secs(), n: d.subsec_nanos() }
    }
}

#[derive(Serialize, Deserialize, Clone, Copy, Debug, PartialEq, Eq, Hash)]
pub enum HashMode {
    Identity,
    Mixed,
    Constant,
}

#[derive(Serialize, Deserialize, Clone, Debug, PartialEq, Eq, Hash)]
pub enum WeightFn {
    /// the crate's own `Calculation::perform` (size_of based: 36 for u32/u64, 60 with a TTL)
    Default,
    /// constant per key, whatever the value or TTL
    PerKey(Vec<i64>),
    /// 1 + value % m, plus 24 when a TTL is given
    ValueMod(i64),
}

#[derive(Serialize, Deserialize, Clone, Debug, PartialEq)]
pub struct Cfg {
    pub weight: i64,
    pub capacity: usize,
    pub counters: u64,
    pub shards: usize,
    pub queue: usize,
    pub pool: usize,
    pub buffer: usize,
    pub hash: HashMode,
    pub weight_fn: WeightFn,
    /// simulated wall clock at the start of the run
    pub start: Dur,
    pub keys: u32,
}

impl Cfg {
    pub fn basic() -> Cfg {
        Cfg {
            weight: 100,
            capacity: 16,
            counters: 64,
            shards: 2,
            queue: 4,
            pool: 1,
            buffer: 2,
            hash: HashMode::Identity,
            weight_fn: WeightFn::Default,
            start: Dur::secs(1_700_000_000),
            keys: 4,
        }
    }
    pub fn hash_of(&self, key: u32) -> u64 {
        hash_key(self.hash, key)
    }
}

pub fn hash_key(mode: HashMode, key: u32) -> u64 {
    match mode {
        HashMode::Identity => key as u64,
        HashMode::Mixed => {
            let mut x = key as u64 ^ 0xA5A5_5A5A_1234_5678;
            crate::rng::splitmix(&mut x)
        }
        HashMode::Constant => 42,
    }
}

pub fn weight_of(f: &WeightFn, key: u32, val: u64, ttl: bool) -> i64 {
    match f {
        WeightFn::Default => {
            if ttl {
                60
            } else {
                36
            }
        }
        WeightFn::PerKey(ws) => ws[key as usize % ws.len()],
        WeightFn::ValueMod(m) => 1 + (val % (*m as u64)) as i64 + if ttl { 24 } else { 0 },
    }
}

#[derive(Serialize, Deserialize, Clone, Copy, Debug, PartialEq, Eq, Hash)]
pub enum Wait {
    /// await the acknowledgement right after the call
    Now,
    /// keep it; the next `AwaitAll` of this thread awaits it
    Later,
    /// never awaited by the thread; the harness awaits it at the end of the run (liveness)
    Never,
}

#[derive(Serialize, Deserialize, Clone, Copy, Debug, PartialEq, Eq, Hash)]
pub enum ReadKind {
    Get,
    GetRef,
    MapGet,
    MapGetRef,
    MultiGet,
    MultiGetIter,
    MultiGetMapIter,
}

pub const ALL_READS: [ReadKind; 7] = [
    ReadKind::Get,
    ReadKind::GetRef,
    ReadKind::MapGet,
    ReadKind::MapGetRef,
    ReadKind::MultiGet,
    ReadKind::MultiGetIter,
    ReadKind::MultiGetMapIter,
];

impl ReadKind {
    pub fn is_multi(self) -> bool {
        matches!(self, ReadKind::MultiGet | ReadKind::MultiGetIter | ReadKind::MultiGetMapIter)
    }
}

#[derive(Serialize, Deserialize, Clone, Copy, Debug, PartialEq, Eq, Hash, PartialOrd, Ord)]
pub enum RoleName {
    Worker,
    Sweeper,
    Consumer,
}

impl RoleName {
    pub fn to_sim(self) -> simsync::sim::Role {
        match self {
            RoleName::Worker => simsync::sim::Role::Worker,
            RoleName::Sweeper => simsync::sim::Role::Sweeper,
            RoleName::Consumer => simsync::sim::Role::Consumer,
        }
    }
}

#[derive(Serialize, Deserialize, Clone, Debug, PartialEq, Eq, Hash)]
pub enum Op {
    Put { key: u32, val: u64, weight: Option<i64>, ttl: Option<Dur>, wait: Wait },
    Upsert { key: u32, val: Option<u64>, weight: Option<i64>, ttl: Option<Dur>, remove_ttl: bool, wait: Wait },
    Delete { key: u32, wait: Wait },
    Read { kind: ReadKind, keys: Vec<u32> },
    WeightUsed,
    Stats,
    AwaitAll,
    Advance(Dur),
    /// move the clock backwards (fault kind, off by default)
    Rewind(Dur),
    Tick,
    AwaitIdle(RoleName),
    /// advance the clock through `shards` consecutive whole seconds, ticking and awaiting each sweep
    Rotate,
    Shutdown,
    /// poll this thread's `slot`-th kept acknowledgement once by hand with counting waker `waker`
    Poll { slot: usize, waker: usize },
    Yield,
    /// map_get(key, f) where f calls back into the same cache (a delete of `inner`): legal, since
    /// map_get hands no guard to the caller (C18's only exclusion is a live get_ref guard)
    MapGetCallingBack { key: u32, inner: u32 },
}

impl Op {
    pub fn key(&self) -> Option<u32> {
        match self {
            Op::Put { key, .. } | Op::Upsert { key, .. } | Op::Delete { key, .. } => Some(*key),
            _ => None,
        }
    }
    pub fn is_write(&self) -> bool {
        matches!(self, Op::Put { .. } | Op::Upsert { .. } | Op::Delete { .. })
    }
    pub fn wait(&self) -> Option<Wait> {
        match self {
            Op::Put { wait, .. } | Op::Upsert { wait, .. } | Op::Delete { wait, .. } => Some(*wait),
            _ => None,
        }
    }
    pub fn short(&self) -> String {
        match self {
            Op::Put { key, val, weight, ttl, wait } => format!(
                "put k{} v{:x}{}{} {:?}",
                key,
                val,
                weight.map(|w| format!(" w{}", w)).unwrap_or_default(),
                ttl.map(|d| format!(" ttl{}.{:09}", d.s, d.n)).unwrap_or_default(),
                wait
            ),
            Op::Upsert { key, val, weight, ttl, remove_ttl, wait } => format!(
                "upsert k{}{}{}{}{} {:?}",
                key,
                val.map(|v| format!(" v{:x}", v)).unwrap_or_default(),
                weight.map(|w| format!(" w{}", w)).unwrap_or_default(),
                ttl.map(|d| format!(" ttl{}.{:09}", d.s, d.n)).unwrap_or_default(),
                if *remove_ttl { " -ttl" } else { "" },
                wait
            ),
            Op::Delete { key, wait } => format!("delete k{} {:?}", key, wait),
            Op::Read { kind, keys } => format!("{:?} {:?}", kind, keys),
            Op::Advance(d) => format!("advance {}.{:09}s", d.s, d.n),
            Op::Rewind(d) => format!("rewind {}.{:09}s", d.s, d.n),
            other => format!("{:?}", other),
        }
    }
}

#[derive(Serialize, Deserialize, Clone, Copy, Debug, PartialEq, Eq, Hash)]
pub enum Mode {
    Random,
    /// PCT with `depth` priority change points drawn over an assumed run length of `len` steps
    Pct { depth: u32, len: u32 },
    /// keep running the current task with probability stay/256
    Sticky { stay: u32 },
    RoundRobin,
}

#[derive(Serialize, Deserialize, Clone, Debug, PartialEq, Eq, Hash)]
pub struct Stall {
    pub role: RoleName,
    /// scheduler steps [from, until) during which the role is withheld (unless nothing else can run)
    pub from: u64,
    pub until: u64,
}

#[derive(Serialize, Deserialize, Clone, Debug, PartialEq)]
pub struct SchedSpec {
    pub mode: Mode,
    pub seed: u64,
    pub stalls: Vec<Stall>,
    /// explicit task choices (replay); `None` = draw from `mode` / `seed`
    pub choices: Option<Vec<u32>>,
    /// replay strictly (divergence is an error) or leniently (fall back to the mode)
    pub strict: bool,
    pub max_steps: u64,
}

impl SchedSpec {
    pub fn random(seed: u64) -> SchedSpec {
        SchedSpec { mode: Mode::Random, seed, stalls: vec![], choices: None, strict: false, max_steps: 200_000 }
    }
}

#[derive(Serialize, Deserialize, Clone, Debug, PartialEq)]
pub struct Scenario {
    pub property: String,
    pub family: String,
    /// stratum / generator variant within the property (e.g. "avoid", "seek:D5")
    pub stratum: String,
    pub cfg: Cfg,
    /// one program per caller thread
    pub threads: Vec<Vec<Op>>,
    /// online driver name for SEQ families ("" = none): thread 0's program is drawn online from
    /// `online_seed` (and recorded into `threads[0]`); on replay the recorded program is followed.
    pub online: String,
    pub online_seed: u64,
    pub online_steps: u32,
    pub sched: SchedSpec,
    pub salt: u64,
}
