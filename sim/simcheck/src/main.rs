//! simcheck: deterministic-simulation worker for tinylfu-cached.
//!
//!   simcheck run --property C01 --seed S --runs N --offset W --stride K --from I --out FILE
//!   simcheck replay FILE [--lenient] [--quiet]
//!
//! Exit codes: 0 = held on everything explored; 1 = violation (replay file written);
//! 2 = harness error (including replay divergence); 3 = the worker had to stop after a run whose
//! failure is a listed known finding (panic / deadlock kill the execution engine's state): the
//! orchestrator restarts it at `next_index`.
mod exec;
mod gen;
mod hist;
mod hx;
mod oracle;
mod props;
mod rng;
mod scenario;
mod sched;
mod seq;

use exec::{RunOutput, Violation};
use rng::{hash_bytes, mix, Rng};
use scenario::*;
use sched::{Driver, SchedRecord, SimScheduler};
use serde::{Deserialize, Serialize};
use std::cell::RefCell;
use std::collections::{BTreeMap, BTreeSet};
use std::panic;

#[derive(Serialize, Deserialize, Clone, Debug)]
pub struct KnownFinding {
    pub id: String,
    pub property: String,
    pub signature: String,
    pub status: String,
    #[serde(default)]
    pub description: String,
    #[serde(default)]
    pub witness: String,
}

#[derive(Serialize, Deserialize, Clone, Debug)]
pub struct ReplayFile {
    pub format: u32,
    pub property: String,
    pub signature: String,
    pub message: String,
    pub event: u64,
    pub verif_seed: u64,
    pub run_index: u64,
    pub run_seed: u64,
    pub tree: String,
    pub scenario: Scenario,
    /// hash of the full normalised history of the failing run (replay must reach the same)
    pub history_hash: String,
    pub minimised: bool,
}

#[derive(Serialize, Deserialize, Default, Clone, Debug)]
pub struct Aggregate {
    pub property: String,
    pub evaluations: u64,
    pub completed: u64,
    pub steps: u64,
    pub context_switches: u64,
    pub preemptions: u64,
    pub sim_time_s: f64,
    pub history_events: u64,
    pub per_stratum: BTreeMap<String, u64>,
    pub per_mode: BTreeMap<String, u64>,
    pub nontrivial_runs: u64,
    pub probes: BTreeMap<String, u64>,
    pub faults: BTreeMap<String, u64>,
    pub interleavings: BTreeSet<u64>,
    pub histories: BTreeSet<u64>,
    pub nontrivial_histories: BTreeSet<u64>,
    pub samples: Vec<serde_json::Value>,
    pub violations: Vec<serde_json::Value>,
    pub known_hits: BTreeMap<String, u64>,
    /// runs that were cut short by a failure belonging to another property (a panic = C17, a
    /// deadlock / exhausted step budget = C18): signature -> (count, first replay file)
    pub foreign: BTreeMap<String, (u64, String)>,
    pub next_index: u64,
    pub finished: bool,
    pub determinism_digest: u64,
    /// per run index: "<history hash>:<schedule hash>" (only with --digests)
    pub run_digests: BTreeMap<String, String>,
}

const HASH_CAP: usize = 400_000;

use exec::{PanicInfo, PANIC};

fn install_panic_hook() {
    panic::set_hook(Box::new(|info| {
        let message = if let Some(s) = info.payload().downcast_ref::<&str>() {
            s.to_string()
        } else if let Some(s) = info.payload().downcast_ref::<String>() {
            s.clone()
        } else {
            "<non-string panic>".to_string()
        };
        let (file, line) = info.location().map(|l| (l.file().to_string(), l.line())).unwrap_or_default();
        let task = simsync::sim::current_task();
        let role = match task {
            Some(0) => "caller".to_string(),
            Some(t) => simsync::sim::role_of(t).map(|r| r.name().to_string()).unwrap_or_else(|| "caller".to_string()),
            None => "engine".to_string(),
        };
        PANIC.with(|p| {
            let mut p = p.borrow_mut();
            if p.is_none() {
                *p = Some(PanicInfo { message, file, line, task, role });
            }
        });
    }));
}

fn norm_file(f: &str) -> String {
    if let Some(pos) = f.find("repo/src/") {
        return f[pos + 5..].to_string();
    }
    if let Some(pos) = f.find("/library/") {
        return f[pos + 1..].to_string();
    }
    if let Some(pos) = f.find("shims/") {
        return f[pos..].to_string();
    }
    if let Some(pos) = f.rfind("registry/src/") {
        let rest = &f[pos + 13..];
        return rest.split_once('/').map(|x| x.1.to_string()).unwrap_or_else(|| rest.to_string());
    }
    f.to_string()
}

fn msg_class(m: &str) -> String {
    let mut out = String::new();
    let mut last_hash = false;
    for c in m.chars() {
        if c.is_ascii_digit() {
            if !last_hash {
                out.push('#');
                last_hash = true;
            }
        } else {
            out.push(c);
            last_hash = false;
        }
        if out.len() >= 70 {
            break;
        }
    }
    out.replace('\n', " ")
}

struct Work {
    property: String,
    verif_seed: u64,
    runs: u64,
    offset: u64,
    stride: u64,
    next: u64,
    strata: Vec<props::Stratum>,
    total_share: u32,
    known: Vec<KnownFinding>,
    replays_dir: String,
    tree: String,
    seek_cap: u64,
}

struct Current {
    index: u64,
    run_seed: u64,
}

struct Shared {
    work: Work,
    agg: Aggregate,
    cur: Option<Current>,
    stop: bool,
    found: Option<(Violation, String)>,
    replay_mode: Option<ReplayFile>,
    replay_result: Option<(Vec<Violation>, u64, Option<String>)>,
    digests: bool,
    rerecord: Option<(Scenario, SchedRecord)>,
}

thread_local! {
    static SHARED: RefCell<Option<Shared>> = RefCell::new(None);
}

fn property_code(p: &str) -> u64 {
    hash_bytes(p.as_bytes())
}

fn history_hash(out: &RunOutput) -> u64 {
    let bytes = serde_json::to_vec(&out.log).unwrap_or_default();
    hash_bytes(&bytes)
}

fn outcome_hash(out: &RunOutput) -> u64 {
    // outcome-bearing part of the history: returns, ack observations, final reads, observations
    let mut acc: Vec<u8> = vec![];
    for it in &out.log {
        match it {
            hist::Item::Return { .. } | hist::Item::AckObserved { .. } | hist::Item::FinalRead { .. } | hist::Item::Polled { .. } => {
                acc.extend(serde_json::to_vec(it).unwrap_or_default());
            }
            hist::Item::Obs(o) => {
                acc.extend(format!("{}:{}:{:?}", o.label, o.weight_used, o.stats).into_bytes());
            }
            _ => {}
        }
    }
    hash_bytes(&acc)
}

fn schedule_hash(rec: &SchedRecord) -> u64 {
    // run-length encoded task-choice sequence
    let mut acc: Vec<u8> = vec![];
    let mut prev: Option<u32> = None;
    let mut n: u32 = 0;
    for c in &rec.choices {
        if Some(*c) == prev {
            n += 1;
        } else {
            if let Some(p) = prev {
                acc.extend(p.to_le_bytes());
                acc.extend(n.to_le_bytes());
            }
            prev = Some(*c);
            n = 1;
        }
    }
    if let Some(p) = prev {
        acc.extend(p.to_le_bytes());
        acc.extend(n.to_le_bytes());
    }
    hash_bytes(&acc)
}

fn sample_of(sc: &Scenario) -> serde_json::Value {
    serde_json::json!({
        "stratum": sc.stratum,
        "family": sc.family,
        "config": sc.cfg,
        "scheduler": {"mode": sc.sched.mode, "stalls": sc.sched.stalls},
        "programs": sc.threads.iter().map(|p| p.iter().map(|o| o.short()).collect::<Vec<_>>()).collect::<Vec<_>>(),
    })
}

fn known_match<'a>(known: &'a [KnownFinding], v: &Violation) -> Option<&'a KnownFinding> {
    known.iter().find(|k| k.status == "open" && k.property == v.property && k.signature == v.signature)
}

fn write_replay(sh: &Shared, sc: &Scenario, rec: &SchedRecord, v: &Violation, hh: u64, index: u64, run_seed: u64) -> String {
    let mut sc = sc.clone();
    sc.sched.choices = Some(rec.choices.clone());
    sc.sched.strict = true;
    let rf = ReplayFile {
        format: 1,
        property: sh.work.property.clone(),
        signature: v.signature.clone(),
        message: v.message.clone(),
        event: v.event,
        verif_seed: sh.work.verif_seed,
        run_index: index,
        run_seed,
        tree: sh.work.tree.clone(),
        scenario: sc,
        history_hash: format!("{:016x}", hh),
        minimised: false,
    };
    let _ = std::fs::create_dir_all(&sh.work.replays_dir);
    let path = format!("{}/{}-{}-{:016x}.json", sh.work.replays_dir, sh.work.property, index, run_seed);
    std::fs::write(&path, serde_json::to_string_pretty(&rf).unwrap()).expect("write replay file");
    path
}

/// Fold a finished run into the aggregate; returns true if the worker must stop.
fn finish_run(sh: &mut Shared) {
    let cur = match sh.cur.take() {
        Some(c) => c,
        None => return,
    };
    let prepared = exec::take_current().expect("prepared scenario");
    let mut sc = prepared.scenario;
    let out = exec::take_output();
    let rec = sched::take_record();
    if !out.recorded_ops.is_empty() {
        if sc.threads.is_empty() {
            sc.threads.push(vec![]);
        }
        sc.threads[0] = out.recorded_ops.clone();
    }
    let verdict = props::judge(&sh.work.property, &sc, &out, &rec);
    let hh = history_hash(&out);
    if let Ok(want) = std::env::var("SIM_DUMP_RUN") {
        if want.parse::<u64>().ok() == Some(cur.index) {
            for (i, it) in out.log.iter().enumerate() {
                eprintln!("{:5} {}", i, serde_json::to_string(it).unwrap_or_default());
            }
        }
    }

    if let Some(rf) = &sh.replay_mode {
        let _ = rf;
        if std::env::var("SIM_DUMP").is_ok() {
            for (i, it) in out.log.iter().enumerate() {
                eprintln!("{:5} {}", i, serde_json::to_string(it).unwrap_or_default());
            }
        }
        sh.replay_result = Some((verdict.violations.clone(), hh, rec.diverged.clone()));
        sh.rerecord = Some((sc.clone(), rec.clone()));
        sh.stop = true;
        return;
    }

    let a = &mut sh.agg;
    a.evaluations += 1;
    if out.completed {
        a.completed += 1;
    }
    a.steps += rec.steps;
    a.context_switches += rec.context_switches;
    a.preemptions += rec.preemptions;
    a.history_events += out.log.len() as u64;
    a.determinism_digest = mix(&[a.determinism_digest, cur.index, hh, schedule_hash(&rec)]);
    *a.per_stratum.entry(sc.stratum.clone()).or_insert(0) += 1;
    *a.per_mode.entry(format!("{:?}", sc.sched.mode).split(|c| c == ' ' || c == '{').next().unwrap_or("").to_string()).or_insert(0) += 1;
    // simulated time covered = sum of clock advances
    let hx_adv: u128 = out
        .log
        .iter()
        .filter_map(|it| match it {
            hist::Item::Invoke { op: Op::Advance(d), .. } => Some(d.to_std().as_nanos()),
            hist::Item::Invoke { op: Op::Rotate, .. } => Some(sc.cfg.shards as u128 * 1_000_000_000),
            _ => None,
        })
        .sum();
    a.sim_time_s += hx_adv as f64 / 1e9;
    if sh.digests {
        a.run_digests.insert(cur.index.to_string(), format!("{:016x}:{:016x}", hh, schedule_hash(&rec)));
    }
    for (k, n) in &out.probes {
        if k.starts_with("fault.") {
            *a.faults.entry(k[6..].to_string()).or_insert(0) += n;
        } else {
            *a.probes.entry(k.to_string()).or_insert(0) += n;
        }
    }
    for (role, n) in &rec.stall_steps {
        *a.faults.entry(format!("stall_{}_steps", role)).or_insert(0) += n;
    }
    if !rec.stall_steps.is_empty() {
        *a.faults.entry("stall_runs".to_string()).or_insert(0) += 1;
    }
    for (role, n) in &rec.forced_breaks {
        *a.probes.entry(format!("stall_forced_break_{}", role)).or_insert(0) += n;
    }
    let mut seen: BTreeSet<&str> = BTreeSet::new();
    for p in &verdict.probes {
        if seen.insert(p) {
            if let Some(f) = p.strip_prefix("fault.") {
                *a.faults.entry(f.to_string()).or_insert(0) += 1;
            } else {
                *a.probes.entry(p.to_string()).or_insert(0) += 1;
            }
        }
    }
    if a.interleavings.len() < HASH_CAP {
        a.interleavings.insert(schedule_hash(&rec));
    }
    let oh = outcome_hash(&out);
    if a.histories.len() < HASH_CAP {
        a.histories.insert(oh);
    }
    if verdict.nontrivial {
        a.nontrivial_runs += 1;
        if a.nontrivial_histories.len() < HASH_CAP {
            a.nontrivial_histories.insert(mix(&[oh, schedule_hash(&rec)]));
        }
    }
    if a.samples.len() < 3 && (verdict.nontrivial || a.evaluations > 50) {
        a.samples.push(sample_of(&sc));
    }

    if let Some(d) = &rec.diverged {
        eprintln!("HARNESS-ERROR: schedule diverged outside replay: {}", d);
        std::process::exit(2);
    }

    for v in &verdict.violations {
        if let Some(k) = known_match(&sh.work.known, v) {
            *sh.agg.known_hits.entry(k.id.clone()).or_insert(0) += 1;
            continue;
        }
        let path = write_replay(sh, &sc, &rec, v, hh, cur.index, cur.run_seed);
        sh.agg.violations.push(serde_json::json!({
            "property": v.property, "signature": v.signature, "message": v.message,
            "run_index": cur.index, "run_seed": cur.run_seed, "replay": path,
        }));
        sh.found = Some((v.clone(), path));
        sh.stop = true;
        break;
    }
}

struct WorkDriver;

impl Driver for WorkDriver {
    fn next_execution(&mut self) -> bool {
        SHARED.with(|s| {
            let mut g = s.borrow_mut();
            let sh = g.as_mut().expect("shared");
            finish_run(sh);
            if sh.stop {
                return false;
            }
            if let Some(rf) = &sh.replay_mode {
                let sc = rf.scenario.clone();
                props::set_property(&sc.property);
                let online = props::online_for(&sc);
                sched::arm(&sc.sched);
                exec::set_current(exec::Prepared { scenario: sc, online });
                sh.cur = Some(Current { index: rf.run_index, run_seed: rf.run_seed });
                return true;
            }
            // next index of this worker's slice
            let w = &mut sh.work;
            while w.next < w.runs && w.next % w.stride != w.offset {
                w.next += 1;
            }
            if w.next >= w.runs {
                return false;
            }
            let index = w.next;
            w.next += 1;
            sh.agg.next_index = w.next;
            let run_seed = mix(&[w.verif_seed, property_code(&w.property), index]);
            let mut rng = Rng::new(run_seed);
            // stratum by interleaved shares
            let mut slot = (index % w.total_share as u64) as u32;
            let mut chosen = 0usize;
            for (i, st) in w.strata.iter().enumerate() {
                if slot < st.share {
                    chosen = i;
                    break;
                }
                slot -= st.share;
            }
            // seek strata (inputs of listed findings; each hit of a listed panic costs a process
            // restart) do not need millions of runs: beyond the cap their slots go to the first stratum
            if w.strata[chosen].name.starts_with("seek-") && index >= w.seek_cap {
                chosen = 0;
            }
            let st = &w.strata[chosen];
            let prepared = (st.gen)(&mut rng, st.name);
            sched::arm(&prepared.scenario.sched);
            exec::set_current(prepared);
            sh.cur = Some(Current { index, run_seed });
            true
        })
    }
}

fn shuttle_config(max_steps: u64) -> shuttle::Config {
    let mut cfg = shuttle::Config::new();
    cfg.stack_size = 1 << 19;
    cfg.failure_persistence = shuttle::FailurePersistence::None;
    cfg.max_steps = shuttle::MaxSteps::FailAfter(max_steps as usize);
    cfg.silence_warnings = true;
    cfg
}

/// Classify an execution that ended with a panic out of the engine (task panic, deadlock, step
/// budget) into a violation.
fn failure_violation(property: &str, payload: &str) -> Violation {
    let info = PANIC.with(|p| p.borrow_mut().take());
    let roles: Vec<String> = simsync::sim::roles().iter().map(|(t, r)| format!("task{}={}", t, r.name())).collect();
    let event = exec::seq();
    if payload.starts_with("deadlock!") {
        // Two very different things end as "nothing runnable": a cycle of lock / queue waits that
        // involves a background thread (C18), and an acknowledgement that never resolves while the
        // worker, the sweeper and the consumer are all parked idle in recv() (C12; C13 when the
        // scenario called shutdown).
        let idle = |r: simsync::sim::Role| simsync::sim::chan_of(r).map(|c| c.recv_waiting.get() > 0 || c.rx_closed.get()).unwrap_or(true);
        let background_idle = idle(simsync::sim::Role::Worker) && idle(simsync::sim::Role::Sweeper) && idle(simsync::sim::Role::Consumer);
        let shutdown_in_run = exec::shutdown_was_called();
        let (prop, class) = if background_idle {
            (if property == "C13" && shutdown_in_run { "C13" } else { "C12" }, "acknowledgement-never-resolves")
        } else {
            (if property == "C13" && shutdown_in_run { "C13" } else { "C18" }, "deadlock")
        };
        let mut blocked: BTreeSet<String> = BTreeSet::new();
        let roles_map = simsync::sim::roles();
        // shuttle prints each blocked task as "<name> (task <label>(<id>)[, pending future])"
        let mut rest = payload;
        while let Some(pos) = rest.find("(task ") {
            rest = &rest[pos + 6..];
            let end = rest.find(|c| c == ')').unwrap_or(rest.len());
            let inner = &rest[..end];
            let num: String = match inner.rfind('(') {
                Some(p) => inner[p + 1..].chars().take_while(|c| c.is_ascii_digit()).collect(),
                None => inner.chars().filter(|c| c.is_ascii_digit()).collect(),
            };
            if let Ok(t) = num.parse::<usize>() {
                let name = if t == 0 { "main".to_string() } else { roles_map.get(&t).map(|r| r.name().to_string()).unwrap_or_else(|| "caller".to_string()) };
                blocked.insert(name);
            }
        }
        let blocked: Vec<String> = blocked.into_iter().collect();
        return Violation {
            property: prop.to_string(),
            signature: format!("{}/{}/blocked={}", prop, class, blocked.join("+")),
            message: format!("{} [{}]", payload.lines().next().unwrap_or(""), roles.join(",")),
            event,
        };
    }
    if payload.starts_with("exceeded max_steps") {
        let prop = "C18";
        return Violation {
            property: prop.to_string(),
            signature: format!("{}/step-budget", prop),
            message: "run did not finish within the step budget (livelock?)".to_string(),
            event,
        };
    }
    let (role, file, line, message) = match info {
        Some(i) => (i.role, norm_file(&i.file), i.line, i.message),
        None => ("unknown".to_string(), String::new(), 0, payload.to_string()),
    };
    // a panic in any task is C17's business, whichever check happened to run into it
    let _ = property;
    let prop = "C17";
    Violation {
        property: prop.to_string(),
        signature: format!("{}/panic/{}/{}/{}", prop, role, file.rsplit('/').next().unwrap_or(""), msg_class(&message)),
        message: format!("panic in {} task at {}:{}: {}", role, file, line, message),
        event,
    }
}

fn payload_string(e: &Box<dyn std::any::Any + Send>) -> String {
    if let Some(s) = e.downcast_ref::<&str>() {
        s.to_string()
    } else if let Some(s) = e.downcast_ref::<String>() {
        s.clone()
    } else {
        "<non-string panic>".to_string()
    }
}

fn arg<'a>(args: &'a [String], name: &str) -> Option<&'a str> {
    args.iter().position(|a| a == name).and_then(|i| args.get(i + 1)).map(|s| s.as_str())
}

fn load_known(path: &str) -> Vec<KnownFinding> {
    match std::fs::read_to_string(path) {
        Ok(s) => serde_json::from_str::<Vec<KnownFinding>>(&s).unwrap_or_else(|e| {
            eprintln!("HARNESS-ERROR: cannot parse {}: {}", path, e);
            std::process::exit(2);
        }),
        Err(_) => vec![],
    }
}

fn write_agg(path: &str, agg: &Aggregate) {
    std::fs::write(path, serde_json::to_string(agg).unwrap()).expect("write aggregate");
}

fn cmd_run(args: &[String]) -> i32 {
    let property = arg(args, "--property").expect("--property").to_string();
    let verif_seed: u64 = arg(args, "--seed").unwrap_or("20240607").parse().expect("seed");
    let runs: u64 = arg(args, "--runs").unwrap_or("1000").parse().expect("runs");
    let offset: u64 = arg(args, "--offset").unwrap_or("0").parse().expect("offset");
    let stride: u64 = arg(args, "--stride").unwrap_or("1").parse().expect("stride");
    let from: u64 = arg(args, "--from").unwrap_or("0").parse().expect("from");
    let out = arg(args, "--out").unwrap_or("/dev/null").to_string();
    let known_path = arg(args, "--known").unwrap_or("/verif/known_findings.json").to_string();
    let replays_dir = arg(args, "--replays").unwrap_or("/verif/replays").to_string();
    let tree = arg(args, "--tree").unwrap_or("unknown").to_string();
    let digests = args.iter().any(|a| a == "--digests");
    let only_stratum = arg(args, "--stratum").map(|s| s.to_string());
    let known_list = load_known(&known_path);
    props::set_open(known_list.iter().filter(|k| k.status == "open").map(|k| k.id.clone()));
    if let Some(ids) = arg(args, "--assume-open") {
        props::set_open(ids.split(',').filter(|s| !s.is_empty()).map(|s| s.to_string()));
    }
    props::set_property(&property);
    let mut strata = props::plan(&property);
    if let Some(name) = only_stratum {
        strata.retain(|s| s.name == name);
    }
    if strata.is_empty() {
        eprintln!("HARNESS-ERROR: no strata for property {}", property);
        return 2;
    }
    let total_share = strata.iter().map(|s| s.share).sum();
    let mut agg = Aggregate { property: property.clone(), next_index: from, ..Default::default() };
    agg.determinism_digest = 0;
    let work = Work {
        property: property.clone(),
        verif_seed,
        runs,
        offset,
        stride,
        next: from,
        strata,
        total_share,
        known: known_list,
        replays_dir,
        tree,
        seek_cap: std::env::var("VERIF_SEEK_CAP").ok().and_then(|s| s.parse().ok()).unwrap_or(240_000),
    };
    SHARED.with(|s| {
        *s.borrow_mut() =
            Some(Shared { work, agg, cur: None, stop: false, found: None, replay_mode: None, replay_result: None, digests, rerecord: None })
    });
    install_panic_hook();
    let runner = shuttle::Runner::new(SimScheduler { driver: WorkDriver }, shuttle_config(200_000));
    let result = panic::catch_unwind(panic::AssertUnwindSafe(|| runner.run(exec::body)));
    match result {
        Ok(_) => SHARED.with(|s| {
            let mut g = s.borrow_mut();
            let sh = g.as_mut().unwrap();
            sh.agg.finished = sh.found.is_none();
            write_agg(&out, &sh.agg);
            if let Some((v, path)) = &sh.found {
                println!("FOUND property={} signature={} replay={}", v.property, v.signature, path);
                println!("  {}", v.message);
                1
            } else {
                0
            }
        }),
        Err(e) => {
            // the execution engine's state is gone: report, persist, and let the orchestrator decide
            let payload = payload_string(&e);
            SHARED.with(|s| {
                let mut g = s.borrow_mut();
                let sh = g.as_mut().unwrap();
                let cur = sh.cur.take().expect("failure outside a run");
                let prepared = exec::take_current().expect("prepared scenario");
                let mut sc = prepared.scenario;
                // classify first: the classification looks at the run state that take_output() resets
                let v = failure_violation(&sh.work.property, &payload);
                let out_run = exec::take_output();
                let rec = sched::peek_record();
                if !out_run.recorded_ops.is_empty() {
                    if sc.threads.is_empty() {
                        sc.threads.push(vec![]);
                    }
                    sc.threads[0] = out_run.recorded_ops.clone();
                }
                sh.agg.evaluations += 1;
                sh.agg.steps += rec.steps;
                *sh.agg.per_stratum.entry(sc.stratum.clone()).or_insert(0) += 1;
                let hh = history_hash(&out_run);
                let known = known_match(&sh.work.known, &v).map(|k| k.id.clone());
                if let Some(id) = known {
                    *sh.agg.known_hits.entry(id).or_insert(0) += 1;
                    write_agg(&out, &sh.agg);
                    3
                } else if v.property != sh.work.property {
                    // not this property's business: note it (with a replay file) and carry on
                    let first = sh.agg.foreign.get(&v.signature).map(|e| e.1.clone());
                    let path = match first {
                        Some(p) => p,
                        None => write_replay(sh, &sc, &rec, &v, hh, cur.index, cur.run_seed),
                    };
                    let e = sh.agg.foreign.entry(v.signature.clone()).or_insert((0, path));
                    e.0 += 1;
                    write_agg(&out, &sh.agg);
                    3
                } else {
                    let path = write_replay(sh, &sc, &rec, &v, hh, cur.index, cur.run_seed);
                    sh.agg.violations.push(serde_json::json!({
                        "property": v.property, "signature": v.signature, "message": v.message,
                        "run_index": cur.index, "run_seed": cur.run_seed, "replay": path,
                    }));
                    write_agg(&out, &sh.agg);
                    println!("FOUND property={} signature={} replay={}", v.property, v.signature, path);
                    println!("  {}", v.message);
                    1
                }
            })
        }
    }
}

/// Replay one file. Prints one machine-readable line:
///   REPLAY result=<reproduced|different|clean|diverged> signature=<...> history=<hash>
fn cmd_replay(args: &[String]) -> i32 {
    let path = args.get(0).expect("replay file");
    let lenient = args.iter().any(|a| a == "--lenient");
    let text = std::fs::read_to_string(path).expect("read replay file");
    let mut rf: ReplayFile = match serde_json::from_str(&text) {
        Ok(r) => r,
        Err(e) => {
            eprintln!("HARNESS-ERROR: cannot parse replay file: {}", e);
            return 2;
        }
    };
    if lenient {
        rf.scenario.sched.strict = false;
    }
    let property = rf.property.clone();
    let expected_sig = rf.signature.clone();
    let expected_hash = rf.history_hash.clone();
    let work = Work {
        property: property.clone(),
        verif_seed: rf.verif_seed,
        runs: 0,
        offset: 0,
        stride: 1,
        next: 0,
        strata: vec![],
        total_share: 1,
        known: vec![],
        replays_dir: "/tmp".to_string(),
        tree: String::new(),
        seek_cap: u64::MAX,
    };
    SHARED.with(|s| {
        *s.borrow_mut() = Some(Shared {
            work,
            agg: Aggregate::default(),
            cur: None,
            stop: false,
            found: None,
            replay_mode: Some(rf),
            replay_result: None,
            digests: false,
            rerecord: None,
        })
    });
    install_panic_hook();
    let runner = shuttle::Runner::new(SimScheduler { driver: WorkDriver }, shuttle_config(200_000));
    let result = panic::catch_unwind(panic::AssertUnwindSafe(|| runner.run(exec::body)));
    let (violations, hh, diverged): (Vec<Violation>, u64, Option<String>) = match result {
        Ok(_) => SHARED.with(|s| s.borrow_mut().as_mut().unwrap().replay_result.take().unwrap_or((vec![], 0, None))),
        Err(e) => {
            let payload = payload_string(&e);
            let v = failure_violation(&property, &payload);
            let out_run = exec::take_output();
            let rec = sched::peek_record();
            (vec![v], history_hash(&out_run), rec.diverged)
        }
    };
    let hash = format!("{:016x}", hh);
    if let Some(d) = diverged {
        if !lenient {
            println!("REPLAY result=diverged detail={:?}", d);
            return 2;
        }
    }
    if let Some(v) = violations.iter().find(|v| v.signature == expected_sig) {
        let exact = hash == expected_hash;
        println!("REPLAY result=reproduced signature={} history={} exact={}", v.signature, hash, exact);
        println!("  {}", v.message);
        return 1;
    }
    if let Some(v) = violations.first() {
        println!("REPLAY result=different signature={} history={}", v.signature, hash);
        println!("  {}", v.message);
        return 1;
    }
    println!("REPLAY result=clean history={}", hash);
    0
}

/// Run the scenario of a replay file leniently and write the file back with the choice list,
/// history hash and violation details of *this* run, marked strict (used after minimisation).
fn cmd_rerecord(args: &[String]) -> i32 {
    let path = args.get(0).expect("replay file").clone();
    let text = std::fs::read_to_string(&path).expect("read replay file");
    let mut rf: ReplayFile = serde_json::from_str(&text).expect("parse replay file");
    let expected = rf.signature.clone();
    let lenient_args = vec![path.clone(), "--lenient".to_string(), "--rerecord".to_string()];
    let _ = lenient_args;
    rf.scenario.sched.strict = false;
    let property = rf.property.clone();
    let work = Work {
        property: property.clone(),
        verif_seed: rf.verif_seed,
        runs: 0,
        offset: 0,
        stride: 1,
        next: 0,
        strata: vec![],
        total_share: 1,
        known: vec![],
        replays_dir: "/tmp".to_string(),
        tree: String::new(),
        seek_cap: u64::MAX,
    };
    let keep = rf.clone();
    SHARED.with(|s| {
        *s.borrow_mut() = Some(Shared {
            work,
            agg: Aggregate::default(),
            cur: None,
            stop: false,
            found: None,
            replay_mode: Some(rf),
            replay_result: None,
            digests: false,
            rerecord: None,
        })
    });
    install_panic_hook();
    let runner = shuttle::Runner::new(SimScheduler { driver: WorkDriver }, shuttle_config(200_000));
    let result = panic::catch_unwind(panic::AssertUnwindSafe(|| runner.run(exec::body)));
    let (violations, hh, sc, rec): (Vec<Violation>, u64, Scenario, SchedRecord) = match result {
        Ok(_) => SHARED.with(|s| {
            let mut g = s.borrow_mut();
            let sh = g.as_mut().unwrap();
            let (v, hh, _) = sh.replay_result.take().unwrap_or((vec![], 0, None));
            let (sc, rec) = sh.rerecord.take().expect("rerecord state");
            (v, hh, sc, rec)
        }),
        Err(e) => {
            let payload = payload_string(&e);
            let v = failure_violation(&property, &payload);
            let out_run = exec::take_output();
            let rec = sched::peek_record();
            (vec![v], history_hash(&out_run), keep.scenario.clone(), rec)
        }
    };
    let v = match violations.iter().find(|v| v.signature == expected) {
        Some(v) => v.clone(),
        None => {
            println!("RERECORD result=lost");
            return 1;
        }
    };
    let mut out = keep;
    out.scenario = sc;
    out.scenario.sched.choices = Some(rec.choices.clone());
    out.scenario.sched.strict = true;
    out.history_hash = format!("{:016x}", hh);
    out.message = v.message.clone();
    out.event = v.event;
    std::fs::write(&path, serde_json::to_string_pretty(&out).unwrap()).expect("write");
    println!("RERECORD result=ok steps={}", rec.choices.len());
    0
}

fn main() {
    let args: Vec<String> = std::env::args().collect();
    let code = match args.get(1).map(|s| s.as_str()) {
        Some("run") => cmd_run(&args[2..]),
        Some("replay") => cmd_replay(&args[2..]),
        Some("rerecord") => cmd_rerecord(&args[2..]),
        _ => {
            eprintln!("usage: simcheck run|replay ...");
            2
        }
    };
    std::process::exit(code);
}
