fn main() { println!("hello"); }
