//! Scenario generators. Everything is a pure function of the PRNG handed in (swarm style: sizes,
//! workload mix, fault kinds and scheduler mode vary per run).
use crate::rng::Rng;
use crate::scenario::*;

pub fn token(t: usize, i: usize, key: u32) -> u64 {
    (((t as u64) + 1) << 48) | ((i as u64) << 16) | key as u64
}

pub fn gen_sched(rng: &mut Rng) -> SchedSpec {
    let seed = rng.next();
    let mode = match rng.below(100) {
        0..=39 => Mode::Random,
        40..=64 => Mode::Sticky { stay: *rng.pick(&[128, 200, 240, 250]) },
        65..=94 => Mode::Pct { depth: rng.range(1, 5) as u32, len: *rng.pick(&[60, 200, 600, 2000]) },
        _ => Mode::RoundRobin,
    };
    SchedSpec { mode, seed, stalls: vec![], choices: None, strict: false, max_steps: 200_000 }
}

pub fn gen_stall(rng: &mut Rng, role: RoleName) -> Stall {
    match rng.below(3) {
        0 => Stall { role, from: 0, until: u64::MAX },
        1 => {
            let from = rng.below(300);
            Stall { role, from, until: from + rng.range(20, 600) }
        }
        _ => {
            let from = rng.below(80);
            Stall { role, from, until: from + rng.range(5, 120) }
        }
    }
}

#[derive(Clone, Copy, Debug, PartialEq, Eq)]
pub enum Pressure {
    /// total demanded weight provably fits: nothing is ever evicted
    Fits,
    /// demand around the limit
    Tight,
    /// demand 1.5x - 4x the limit
    Over,
}

#[derive(Clone, Debug)]
pub struct ConcParams {
    pub threads: (usize, usize),
    pub ops: (usize, usize),
    pub keys: (u32, u32),
    pub pressure: Pressure,
    /// relative weights: put, upsert, delete, read, weight_used, stats, await_all, yield
    pub mix: [u32; 8],
    /// probability (percent) that a put / upsert carries a TTL
    pub ttl_pct: u64,
    /// add a thread that advances the clock and fires ticks
    pub time_thread: bool,
    /// add a thread that only observes total_weight_used / stats
    pub observer: bool,
    /// number of shutdown calls spread over chaos thread(s) (0 = none)
    pub shutdowns: usize,
    /// relative weights of Wait::Now / Later / Never
    pub wait_mix: [u32; 3],
    /// every key is written by exactly one thread, one awaited op at a time
    pub owner_per_key: bool,
    /// upserts may change the charged weight (false: they always restate the key's fixed weight)
    pub upsert_may_raise: bool,
    /// stall faults (percent of runs that get one), and which roles are eligible
    pub stall_pct: u64,
    pub stall_roles: Vec<RoleName>,
    pub hash_modes: Vec<HashMode>,
    pub tiny_queue_pct: u64,
    /// percentage of upserts that carry no value (TTL-only / remove-TTL / weight-only). Valid only
    /// while the key is present: the harness catches the documented refusal otherwise.
    pub valueless_pct: u64,
    /// percentage of upserts that carry only a TTL change (add / change / remove), no value and no
    /// weight: the charged weight moves by the TTL surcharge (+-24). Only generated for keys whose
    /// fixed weight is >= 30 (so that removing the surcharge stays positive) and only meaningful
    /// where the demand bound accounts for the surcharge (Fits strata).
    pub bare_ttl_pct: u64,
    /// extra time-thread activity (ticks / rotations) so that sweeps really run
    pub extra_sweeps: bool,
    /// Pressure::Fits: the limit is the demanded weight plus 0..=fits_slack
    pub fits_slack: i64,
    /// one key weighs 55-90 % of the limit (Tight / Over): admitting it needs several victims
    pub heavy_key: bool,
}

impl ConcParams {
    pub fn base() -> ConcParams {
        ConcParams {
            threads: (2, 4),
            ops: (3, 10),
            keys: (2, 5),
            pressure: Pressure::Over,
            mix: [30, 20, 12, 30, 3, 1, 6, 2],
            ttl_pct: 25,
            time_thread: true,
            observer: false,
            shutdowns: 0,
            wait_mix: [50, 30, 20],
            owner_per_key: false,
            upsert_may_raise: false,
            stall_pct: 30,
            stall_roles: vec![RoleName::Worker, RoleName::Sweeper, RoleName::Consumer],
            hash_modes: vec![HashMode::Identity, HashMode::Mixed, HashMode::Constant],
            tiny_queue_pct: 50,
            valueless_pct: 0,
            bare_ttl_pct: 0,
            extra_sweeps: false,
            fits_slack: 30,
            heavy_key: false,
        }
    }
}

pub const TTLS: [Dur; 8] = [
    Dur { s: 0, n: 0 },
    Dur { s: 0, n: 1 },
    Dur { s: 0, n: 500_000_000 },
    Dur { s: 1, n: 0 },
    Dur { s: 2, n: 0 },
    Dur { s: 5, n: 0 },
    Dur { s: 3600, n: 0 },
    Dur { s: 86_400 * 365, n: 0 },
];

pub const ADVANCES: [Dur; 8] = [
    Dur { s: 0, n: 1 },
    Dur { s: 0, n: 300_000_000 },
    Dur { s: 0, n: 999_999_999 },
    Dur { s: 1, n: 0 },
    Dur { s: 1, n: 500_000_000 },
    Dur { s: 3, n: 0 },
    Dur { s: 3600, n: 0 },
    Dur { s: 86_400 * 400, n: 0 },
];

pub fn gen_cfg(rng: &mut Rng, keys: u32, pressure: Pressure, ttl_possible: bool, p: &ConcParams) -> Cfg {
    // per-key weights first, then a limit in the requested relation to the demand
    let mut ws: Vec<i64> = (0..keys).map(|_| *rng.pick(&[1i64, 2, 3, 5, 8, 10, 13, 20, 25, 30, 40, 55])).collect();
    let surcharge = if ttl_possible { 24 } else { 0 };
    let demand: i64 = ws.iter().map(|w| w + surcharge).sum();
    let weight = match pressure {
        Pressure::Fits => demand + rng.range_i(0, p.fits_slack.max(0)),
        Pressure::Tight => (demand - rng.range_i(0, demand / 3)).max(1),
        Pressure::Over => (demand / rng.range_i(2, 4)).max(1) + rng.range_i(0, 5),
    };
    if pressure == Pressure::Over && rng.chance(1, 6) {
        // one key heavier than the whole cache
        let k = rng.usize_below(ws.len());
        ws[k] = weight + rng.range_i(1, 10);
    }
    if p.heavy_key && pressure != Pressure::Fits {
        let h = rng.usize_below(ws.len());
        ws[h] = (weight * rng.range_i(55, 90) / 100).max(1);
    }
    Cfg {
        weight,
        capacity: *rng.pick(&[1usize, 2, 3, 4, 16, 16, 16, 16]),
        counters: *rng.pick(&[2u64, 3, 7, 16, 64, 100]),
        shards: *rng.pick(&[2usize, 2, 4, 8]),
        queue: if rng.chance(p.tiny_queue_pct, 100) { *rng.pick(&[1usize, 1, 2]) } else { *rng.pick(&[4usize, 64]) },
        pool: *rng.pick(&[1usize, 1, 2, 4]),
        buffer: *rng.pick(&[1usize, 2, 3, 8]),
        hash: *rng.pick(&p.hash_modes),
        weight_fn: WeightFn::PerKey(ws),
        start: Dur { s: 1_700_000_000 + rng.below(10), n: *rng.pick(&[0u32, 1, 500_000_000, 999_999_999]) },
        keys,
    }
}

fn gen_wait(rng: &mut Rng, mix: &[u32; 3]) -> Wait {
    match rng.weighted(mix) {
        0 => Wait::Now,
        1 => Wait::Later,
        _ => Wait::Never,
    }
}

thread_local! {
    pub static MULTI_GET_MAY_REPEAT_KEYS: std::cell::Cell<bool> = std::cell::Cell::new(false);
}

pub fn gen_read(rng: &mut Rng, keys: u32) -> Op {
    let kind = *rng.pick(&ALL_READS);
    let ks: Vec<u32> = if kind.is_multi() {
        let mut all: Vec<u32> = (0..keys).collect();
        rng.shuffle(&mut all);
        let n = rng.range(1, keys.min(4) as u64) as usize;
        all.truncate(n);
        // the same key asked for twice, side by side or apart. (multi_get answers with a map, one
        // entry per key: when the key's state changes between its two lookups the history cannot
        // tell a hit from a miss per position, so only C02's generator, which judges values, asks
        // multi_get this way; the iterators answer per position)
        let dup_ok = kind != ReadKind::MultiGet || MULTI_GET_MAY_REPEAT_KEYS.with(|c| c.get());
        if rng.chance(1, 5) && dup_ok {
            let j = rng.usize_below(all.len());
            let k = all[j];
            if rng.chance(2, 3) {
                all.insert(j, k);
            } else {
                all.push(k);
            }
        }
        all
    } else {
        vec![rng.below(keys as u64) as u32]
    };
    Op::Read { kind, keys: ks }
}

/// A generic concurrent scenario: 2-4 callers on a small shared key space, optional time /
/// observer / chaos threads, acknowledgements awaited, kept or abandoned.
pub fn conc(rng: &mut Rng, property: &str, stratum: &str, p: &ConcParams) -> Scenario {
    let keys = rng.range(p.keys.0 as u64, p.keys.1 as u64) as u32;
    let ttl_possible = p.ttl_pct > 0;
    let cfg = gen_cfg(rng, keys, p.pressure, ttl_possible, p);
    let ws = match &cfg.weight_fn {
        WeightFn::PerKey(ws) => ws.clone(),
        _ => unreachable!(),
    };
    // one run in ten is "big": one more caller and twice the operations (longer histories, more
    // commands in flight together)
    let big = rng.chance(1, 10);
    let n_threads = rng.range(p.threads.0 as u64, p.threads.1 as u64) as usize + if big { 1 } else { 0 };
    let mut threads: Vec<Vec<Op>> = vec![];
    for t in 0..n_threads {
        let n_ops = rng.range(p.ops.0 as u64, p.ops.1 as u64) as usize * if big { 2 } else { 1 };
        let my_keys: Vec<u32> = if p.owner_per_key {
            (0..keys).filter(|k| (*k as usize) % n_threads == t).collect()
        } else {
            (0..keys).collect()
        };
        let mut prog = vec![];
        for i in 0..n_ops {
            let which = rng.weighted(&p.mix);
            let wait = if p.owner_per_key { Wait::Now } else { gen_wait(rng, &p.wait_mix) };
            let op = match which {
                0 | 1 | 2 if my_keys.is_empty() => gen_read(rng, keys),
                0 => {
                    let key = *rng.pick(&my_keys);
                    let ttl = if rng.chance(p.ttl_pct, 100) { Some(*rng.pick(&TTLS)) } else { None };
                    // explicit weight (always the key's own weight) or computed by the weight function
                    let weight = if rng.chance(1, 2) { Some(ws[key as usize]) } else { None };
                    Op::Put { key, val: token(t, i, key), weight, ttl, wait }
                }
                1 => {
                    let key = *rng.pick(&my_keys);
                    let mut ttl = None;
                    let mut remove_ttl = false;
                    if rng.chance(p.ttl_pct, 100) {
                        if rng.chance(1, 3) {
                            remove_ttl = true;
                        } else {
                            ttl = Some(*rng.pick(&TTLS));
                        }
                    }
                    // In a concurrent scenario nobody can know that the key is still readable when the
                    // call is made (eviction, sweep, another thread's delete), and an upsert without a
                    // value on an absent key violates the documented precondition: always give a value.
                    let mut val = Some(token(t, i, key));
                    if rng.chance(p.valueless_pct, 100) {
                        // keep the charged weight unchanged: restate it, or only touch the TTL of a key
                        // whose weight function ignores TTLs (remove-TTL subtracts the surcharge, so it
                        // is paired with the explicit weight)
                        val = None;
                    }
                    let bare = ws[key as usize] >= 30 && rng.chance(p.bare_ttl_pct, 100);
                    if bare {
                        val = None;
                        if ttl.is_none() && !remove_ttl {
                            if rng.chance(1, 2) {
                                ttl = Some(*rng.pick(&TTLS));
                            } else {
                                remove_ttl = true;
                            }
                        }
                    }
                    let weight = if bare {
                        None
                    } else if val.is_none() {
                        Some(ws[key as usize])
                    } else if p.upsert_may_raise {
                        if rng.chance(1, 2) { Some(rng.range_i(1, cfg.weight + 5)) } else { None }
                    } else if rng.chance(1, 2) {
                        // restate the key's fixed weight explicitly (the weight function gives the same)
                        Some(ws[key as usize])
                    } else {
                        None
                    };
                    Op::Upsert { key, val, weight, ttl, remove_ttl, wait }
                }
                2 => Op::Delete { key: *rng.pick(&my_keys), wait },
                3 => gen_read(rng, keys),
                4 => Op::WeightUsed,
                5 => Op::Stats,
                6 => Op::AwaitAll,
                _ => Op::Yield,
            };
            prog.push(op);
        }
        if rng.chance(1, 2) {
            prog.push(Op::AwaitAll);
        }
        threads.push(prog);
    }
    if p.observer {
        let n = rng.range(3, 12) as usize;
        threads.push((0..n).map(|_| if rng.chance(5, 6) { Op::WeightUsed } else { Op::Stats }).collect());
    }
    if p.time_thread && ttl_possible && rng.chance(3, 4) {
        let n = rng.range(1, 6) as usize;
        let mut prog = vec![];
        for _ in 0..n {
            match rng.below(10) {
                0..=4 => prog.push(Op::Advance(*rng.pick(&ADVANCES))),
                5..=8 => prog.push(Op::Tick),
                _ => prog.push(Op::Rotate),
            }
        }
        threads.push(prog);
    }
    if p.extra_sweeps {
        let n = rng.range(3, 8) as usize;
        let mut prog = vec![];
        for _ in 0..n {
            match rng.below(10) {
                0..=3 => prog.push(Op::Advance(*rng.pick(&ADVANCES))),
                4..=6 => prog.push(Op::Tick),
                _ => prog.push(Op::Rotate),
            }
        }
        threads.push(prog);
    }
    if p.shutdowns > 0 {
        let n_chaos = if p.shutdowns > 1 && rng.chance(1, 2) { 2 } else { 1 };
        for c in 0..n_chaos {
            let mut prog = vec![];
            let pre = rng.below(4);
            for _ in 0..pre {
                prog.push(Op::Yield);
            }
            let calls = if n_chaos == 1 { p.shutdowns } else { (p.shutdowns + c) / 2 };
            for _ in 0..calls.max(1) {
                prog.push(Op::Shutdown);
                if rng.chance(1, 2) {
                    prog.push(gen_read(rng, keys));
                }
            }
            threads.push(prog);
        }
    }
    let mut sched = gen_sched(rng);
    if rng.chance(p.stall_pct, 100) && !p.stall_roles.is_empty() {
        let role = *rng.pick(&p.stall_roles);
        sched.stalls.push(gen_stall(rng, role));
    }
    Scenario {
        property: property.to_string(),
        family: "CONC".to_string(),
        stratum: stratum.to_string(),
        cfg,
        threads,
        online: String::new(),
        online_seed: 0,
        online_steps: 0,
        sched,
        salt: rng.next(),
    }
}
