//! Property registry: for each property its strata (generators with relative shares) and its judge.
use crate::exec::{Online, Prepared, RunOutput};
use crate::gen::*;
use crate::hx::Hx;
use crate::oracle::{self, Verdict};
use crate::rng::Rng;
use crate::scenario::*;
use crate::sched::SchedRecord;
use crate::seq::{Focus, KState, Mis, Model, SeqDriver};
use std::cell::RefCell;
use std::collections::BTreeSet;

thread_local! {
    /// ids of the findings that known_findings.json lists as open: their triggers are avoided by
    /// the "avoid" strata (explored at full strength otherwise) and sought by the "seek" strata
    static OPEN: RefCell<BTreeSet<String>> = RefCell::new(BTreeSet::new());
}

pub fn set_open(ids: impl IntoIterator<Item = String>) {
    OPEN.with(|o| *o.borrow_mut() = ids.into_iter().collect());
}

pub fn is_open(id: &str) -> bool {
    OPEN.with(|o| o.borrow().contains(id))
}

pub struct Stratum {
    pub name: &'static str,
    pub share: u32,
    pub gen: fn(&mut Rng, &'static str) -> Prepared,
}

fn prep(sc: Scenario) -> Prepared {
    Prepared { scenario: sc, online: None }
}

// ---------------------------------------------------------------- C01
fn c01_conc(rng: &mut Rng, name: &'static str) -> Prepared {
    let mut p = ConcParams::base();
    p.observer = true;
    p.pressure = if rng.chance(3, 4) { Pressure::Over } else { Pressure::Tight };
    p.upsert_may_raise = false;
    p.mix = [34, 16, 12, 20, 10, 1, 5, 2];
    prep(conc(rng, "C01", name, &p))
}

/// Full cache of short-lived TTL keys, puts that need several victims, many sweeps and a worker
/// that is often stalled in the middle of making space: the sweeper frees sampled victims while
/// the worker still holds the sample.
fn c01_evict_vs_sweep(rng: &mut Rng, name: &'static str) -> Prepared {
    let mut p = ConcParams::base();
    p.observer = true;
    p.keys = (5, 8);
    p.threads = (2, 3);
    p.ops = (4, 10);
    p.ttl_pct = 60;
    // Tight: most keys are resident and a heavy newcomer needs several light victims
    p.pressure = *rng.pick(&[Pressure::Tight, Pressure::Tight, Pressure::Over]);
    p.extra_sweeps = true;
    p.upsert_may_raise = false;
    p.stall_pct = 75;
    p.stall_roles = vec![RoleName::Worker, RoleName::Worker, RoleName::Sweeper];
    p.mix = [52, 8, 6, 16, 12, 1, 3, 2];
    p.hash_modes = vec![HashMode::Identity, HashMode::Mixed];
    // one heavy key (55-90 % of the limit): putting it needs nearly every resident key as a victim
    p.heavy_key = true;
    let mut sc = conc(rng, "C01", name, &p);
    sc.cfg.shards = 2;
    // a second clock / sweep thread: small advances so that keys expire one after the other
    let n = rng.range(4, 10) as usize;
    let mut prog = vec![];
    for _ in 0..n {
        match rng.below(10) {
            0..=3 => prog.push(Op::Advance(*rng.pick(&[Dur { s: 0, n: 300_000_000 }, Dur { s: 0, n: 999_999_999 }, Dur { s: 1, n: 0 }, Dur { s: 1, n: 500_000_000 }]))),
            4..=7 => prog.push(Op::Tick),
            _ => prog.push(Op::Rotate),
        }
    }
    sc.threads.push(prog);
    prep(sc)
}

// ---------------------------------------------------------------- C02
fn c02_conc(rng: &mut Rng, name: &'static str) -> Prepared {
    let mut p = ConcParams::base();
    p.keys = (2, 4);
    p.pressure = *rng.pick(&[Pressure::Over, Pressure::Tight, Pressure::Fits]);
    p.mix = [25, 20, 12, 40, 0, 0, 5, 2];
    p.valueless_pct = 25;
    MULTI_GET_MAY_REPEAT_KEYS.with(|c| c.set(true));
    let sc = conc(rng, "C02", name, &p);
    MULTI_GET_MAY_REPEAT_KEYS.with(|c| c.set(false));
    prep(sc)
}

// ---------------------------------------------------------------- C12 (passive, CONC)
fn c12_conc(rng: &mut Rng, name: &'static str) -> Prepared {
    let mut p = ConcParams::base();
    p.mix = [35, 20, 15, 15, 0, 0, 12, 3];
    p.wait_mix = [60, 30, 10];
    if rng.chance(1, 3) {
        p.shutdowns = 1;
    }
    prep(conc(rng, "C12", name, &p))
}

/// ACK family: few writes through the real API whose acknowledgements are polled by hand by one
/// or two threads with counting wakers, changing wakers between polls, polling after completion.
fn c12_ack(rng: &mut Rng, name: &'static str) -> Prepared {
    let keys = 3u32;
    let ws = vec![5i64, 5, 200];
    let cfg = Cfg {
        weight: 100,
        capacity: 16,
        counters: 64,
        shards: 2,
        queue: *rng.pick(&[1usize, 1, 4]),
        pool: 1,
        buffer: 2,
        hash: HashMode::Identity,
        weight_fn: WeightFn::PerKey(ws),
        start: Dur::secs(1_700_000_000),
        keys,
    };
    // thread 0 issues 1-2 kept writes, then polls; thread 1 (optional) polls the same handles
    let mut t0: Vec<Op> = vec![];
    let n_writes = rng.range(1, 2) as usize;
    for i in 0..n_writes {
        let op = match rng.below(10) {
            0..=5 => Op::Put { key: i as u32, val: token(0, i, i as u32), weight: None, ttl: None, wait: Wait::Never },
            6..=7 => Op::Put { key: 2, val: token(0, i, 2), weight: None, ttl: None, wait: Wait::Never }, // heavier than the cache
            _ => Op::Delete { key: i as u32, wait: Wait::Never }, // absent key
        };
        t0.push(op);
    }
    let mut threads = vec![];
    let pollers = rng.range(1, 2) as usize;
    for t in 0..pollers {
        let mut prog = if t == 0 { std::mem::take(&mut t0) } else { vec![] };
        let n = rng.range(2, 7) as usize;
        let mut waker = t * 4;
        for _ in 0..n {
            match rng.below(10) {
                0..=5 => {
                    if rng.chance(1, 3) {
                        waker = t * 4 + rng.below(3) as usize;
                    }
                    prog.push(Op::Poll { slot: rng.below(n_writes as u64) as usize, waker });
                }
                6..=7 => prog.push(Op::Yield),
                _ => prog.push(Op::Read { kind: *rng.pick(&ALL_READS), keys: vec![rng.below(2) as u32] }),
            }
        }
        threads.push(prog);
    }
    if rng.chance(1, 6) {
        threads.push(vec![Op::Yield, Op::Shutdown]);
    }
    let mut sched = gen_sched(rng);
    if rng.chance(1, 2) {
        sched.stalls.push(gen_stall(rng, RoleName::Worker));
    }
    prep(Scenario {
        property: "C12".to_string(),
        family: "ACK".to_string(),
        stratum: name.to_string(),
        cfg,
        threads,
        online: String::new(),
        online_seed: 0,
        online_steps: 0,
        sched,
        salt: rng.next(),
    })
}

// ---------------------------------------------------------------- C13
fn c13_conc(rng: &mut Rng, name: &'static str) -> Prepared {
    let mut p = ConcParams::base();
    p.shutdowns = rng.range(1, 3) as usize;
    p.mix = [35, 18, 12, 25, 2, 1, 5, 2];
    p.wait_mix = [30, 35, 35];
    p.tiny_queue_pct = 70;
    p.stall_pct = 50;
    p.stall_roles = vec![RoleName::Worker, RoleName::Worker, RoleName::Consumer, RoleName::Sweeper];
    prep(conc(rng, "C13", name, &p))
}

/// C13 with weight-changing upserts in flight: UpdateWeight commands are queued ahead of Shutdown
/// while shutdown() clears the store and the weights on the caller's thread.
fn c13_conc_upserts(rng: &mut Rng, name: &'static str) -> Prepared {
    let mut p = ConcParams::base();
    p.shutdowns = rng.range(1, 2) as usize;
    p.threads = (2, 4);
    p.ops = (4, 12);
    p.keys = (2, 4);
    p.mix = [22, 48, 6, 14, 2, 1, 5, 2];
    p.wait_mix = [25, 40, 35];
    p.ttl_pct = 15;
    p.tiny_queue_pct = 40;
    p.stall_pct = 60;
    p.stall_roles = vec![RoleName::Worker];
    p.pressure = Pressure::Fits;
    let mut sc = conc(rng, "C13", name, &p);
    sc.cfg.shards = 2;
    // every thread first makes sure its keys exist, so that later upserts are applied in place
    let keys = sc.cfg.keys;
    for (t, prog) in sc.threads.iter_mut().enumerate() {
        if prog.iter().any(|o| matches!(o, Op::Shutdown)) {
            continue;
        }
        let mut pre: Vec<Op> = (0..keys).filter(|k| (*k as usize) % 2 == t % 2).map(|k| Op::Put { key: k, val: token(t, 800 + k as usize, k), weight: None, ttl: None, wait: Wait::Now }).collect();
        pre.extend(prog.drain(..));
        *prog = pre;
    }
    prep(sc)
}

// ---------------------------------------------------------------- C18
fn c18_conc(rng: &mut Rng, name: &'static str) -> Prepared {
    let mut p = ConcParams::base();
    p.threads = (3, 4);
    p.ops = (4, 12);
    p.keys = (2, 4);
    p.ttl_pct = 45;
    p.tiny_queue_pct = 85;
    p.upsert_may_raise = false;
    p.valueless_pct = 30;
    p.mix = [26, 26, 14, 26, 2, 1, 3, 2];
    if rng.chance(1, 4) {
        p.shutdowns = rng.range(1, 2) as usize;
    }
    let mut sc = conc(rng, "C18", name, &p);
    sc.cfg.shards = 2;
    sc.cfg.pool = 1;
    sc.cfg.buffer = 1;
    // now and then a mapping function that calls back into the cache
    if rng.chance(1, 4) {
        let keys = sc.cfg.keys;
        let t = rng.usize_below(sc.threads.len().min(3));
        let at = rng.usize_below(sc.threads[t].len() + 1);
        let key = rng.below(keys as u64) as u32;
        let inner = if rng.chance(1, 2) { key } else { rng.below(keys as u64) as u32 };
        // appended, so that the indices of the thread's earlier writes (and their tokens) stay put
        let _ = at;
        sc.threads[t].push(Op::MapGetCallingBack { key, inner });
    }
    prep(sc)
}

// ---------------------------------------------------------------- SEQ family
fn seq_cfg(rng: &mut Rng) -> Cfg {
    let keys = rng.range(2, 6) as u32;
    let (weight_fn, weight) = match rng.below(10) {
        0..=3 => (WeightFn::Default, *rng.pick(&[60i64, 100, 150, 250, 400])),
        4..=6 => (WeightFn::ValueMod(*rng.pick(&[5i64, 9])), rng.range_i(10, 120)),
        _ => {
            let ws: Vec<i64> = (0..keys).map(|_| *rng.pick(&[1i64, 2, 3, 5, 8, 13, 20, 30, 50])).collect();
            (WeightFn::PerKey(ws), rng.range_i(10, 200))
        }
    };
    Cfg {
        weight,
        // only a sizing hint for the maps: must not influence any decision
        capacity: *rng.pick(&[1usize, 2, 3, 4, 16, 16, 16, 16]),
        counters: if is_open("D8") { *rng.pick(&[2u64, 3, 7, 16, 64, 100]) } else { *rng.pick(&[1u64, 2, 3, 7, 16, 64, 100]) },
        shards: *rng.pick(&[2usize, 2, 4, 8]),
        queue: *rng.pick(&[1usize, 2, 4, 64]),
        pool: *rng.pick(&[1usize, 1, 2, 4]),
        buffer: *rng.pick(&[1usize, 2, 3, 8]),
        hash: *rng.pick(&[HashMode::Identity, HashMode::Mixed, HashMode::Constant]),
        weight_fn,
        start: Dur { s: 1_700_000_000 + rng.below(10), n: *rng.pick(&[0u32, 1, 500_000_000, 999_999_999]) },
        keys,
    }
}

/// EDGE configuration: everything at its smallest, counters at and around powers of two, clocks
/// near the epoch and far in the future.
fn edge_cfg(rng: &mut Rng, allow_one_counter: bool) -> Cfg {
    let mut c = seq_cfg(rng);
    let mut counters: Vec<u64> = vec![2, 3, 4, 5, 7, 8, 9, 15, 16, 17, 31, 33, 64, 1 << 10, (1 << 12) + 1, 1 << 16];
    if allow_one_counter {
        counters.extend([1, 1, 1]);
    }
    c.counters = *rng.pick(&counters);
    if rng.chance(2, 3) {
        c.queue = 1;
        c.pool = 1;
        c.buffer = 1;
        c.shards = 2;
    }
    c.start = match rng.below(4) {
        0 => Dur { s: 0, n: *rng.pick(&[0u32, 1]) },
        1 => Dur { s: 1, n: 999_999_999 },
        2 => Dur { s: 32_503_680_000, n: 0 }, // year 3000
        _ => c.start,
    };
    if rng.chance(1, 4) {
        c.weight = *rng.pick(&[1i64, 2, 3, i64::MAX / 2, i64::MAX - 1, i64::MAX]);
    }
    c
}

/// C01: a cache full of many light keys and heavy (but admissible) incoming keys, so that one
/// admission needs more victims than one eviction sample holds.
fn c01_seq_many_light(rng: &mut Rng, name: &'static str) -> Prepared {
    let mut p = seq_prepare(rng, "C01", name, "C01", (12, 45));
    let mut cfg = seq_cfg(rng);
    cfg.keys = 8;
    let ws: Vec<i64> = (0..8).map(|_| *rng.pick(&[1i64, 1, 1, 2])).collect();
    let sum: i64 = ws.iter().sum();
    cfg.weight = rng.range_i(sum - 2, sum + 1).max(6);
    cfg.weight_fn = WeightFn::PerKey(ws);
    rebuild_with_cfg(&mut p, cfg);
    p
}

fn c06_seq(rng: &mut Rng, name: &'static str) -> Prepared {
    let mut p = seq_prepare(rng, "C06", name, "C06", (15, 70));
    let mut cfg = seq_cfg(rng);
    cfg.keys = rng.range(4, 8) as u32;
    let ws: Vec<i64> = (0..cfg.keys).map(|_| *rng.pick(&[1i64, 2, 3, 4, 5, 8])).collect();
    let sum: i64 = ws.iter().sum();
    cfg.weight = (sum * rng.range_i(40, 95) / 100).max(2);
    cfg.weight_fn = WeightFn::PerKey(ws);
    cfg.pool = *rng.pick(&[1usize, 1, 2]);
    cfg.buffer = *rng.pick(&[1usize, 1, 2, 3]);
    cfg.counters = *rng.pick(&[2u64, 3, 7, 16, 64, 100]);
    rebuild_with_cfg(&mut p, cfg);
    p
}

fn c06_seq_race(rng: &mut Rng, name: &'static str) -> Prepared {
    let mut p = seq_prepare(rng, "C06", name, "C06R", (20, 80));
    let mut cfg = seq_cfg(rng);
    cfg.keys = rng.range(4, 8) as u32;
    let ws: Vec<i64> = (0..cfg.keys).map(|_| *rng.pick(&[1i64, 2, 3, 4, 5, 8])).collect();
    let sum: i64 = ws.iter().sum();
    cfg.weight = (sum * rng.range_i(40, 95) / 100).max(2);
    cfg.weight_fn = WeightFn::PerKey(ws);
    cfg.pool = 1;
    cfg.buffer = *rng.pick(&[1usize, 1, 2]);
    cfg.counters = *rng.pick(&[16u64, 64, 100]);
    rebuild_with_cfg(&mut p, cfg);
    // give the consumer a good chance to lag behind the reads
    if p.scenario.sched.stalls.is_empty() && rng.chance(1, 2) {
        p.scenario.sched.stalls.push(Stall { role: RoleName::Consumer, from: rng.below(200), until: rng.range(300, 3000) });
    }
    p
}

fn c14_seq(rng: &mut Rng, name: &'static str) -> Prepared {
    let mut p = seq_prepare(rng, "C14", name, "C14", (25, 160));
    let mut cfg = seq_cfg(rng);
    cfg.keys = rng.range(2, 5) as u32;
    cfg.weight = 400;
    cfg.weight_fn = WeightFn::PerKey(vec![1; cfg.keys as usize]);
    cfg.pool = *rng.pick(&[1usize, 1, 2, 3]);
    cfg.buffer = *rng.pick(&[1usize, 1, 2, 3, 8, 40]);
    if cfg.buffer == 40 {
        cfg.pool = 1; // so that whole buffers of 40 really get drained within one run
    }
    cfg.counters = *rng.pick(&[1u64, 2, 3, 5, 7, 16, 17, 33, 64, 100]);
    rebuild_with_cfg(&mut p, cfg);
    p
}

/// C14 under memory pressure: the worker takes the sketch's read lock (estimates for eviction) while
/// the consumer applies batches.
fn c14_seq_pressure(rng: &mut Rng, name: &'static str) -> Prepared {
    let mut p = seq_prepare(rng, "C14", name, "C14P", (25, 120));
    let mut cfg = seq_cfg(rng);
    cfg.keys = rng.range(3, 6) as u32;
    cfg.weight_fn = WeightFn::PerKey(vec![1; cfg.keys as usize]);
    cfg.weight = rng.range_i(1, (cfg.keys as i64 - 1).max(1));
    cfg.pool = *rng.pick(&[1usize, 1, 2]);
    cfg.buffer = *rng.pick(&[1usize, 1, 2]);
    cfg.counters = *rng.pick(&[7u64, 16, 17, 64, 100]);
    rebuild_with_cfg(&mut p, cfg);
    if rng.chance(1, 2) {
        p.scenario.sched.stalls.push(Stall { role: RoleName::Consumer, from: rng.below(200), until: rng.range(300, 3000) });
    }
    p
}

/// C17 under concurrency: the hostile mix of C18 with many TTL keys, sweeps and evictions, so that
/// a panic needing two background threads on one entry is reachable.
fn c17_conc(rng: &mut Rng, name: &'static str) -> Prepared {
    let mut p = ConcParams::base();
    p.threads = (2, 4);
    p.ops = (4, 12);
    p.keys = (2, 5);
    p.ttl_pct = 70;
    p.pressure = Pressure::Over;
    p.extra_sweeps = true;
    p.observer = true;
    p.valueless_pct = 20;
    p.mix = [34, 22, 10, 26, 4, 1, 2, 1];
    let mut sc = conc(rng, "C17", name, &p);
    sc.cfg.shards = 2;
    prep(sc)
}

fn c17_edge(rng: &mut Rng, name: &'static str) -> Prepared {
    let mut p = seq_prepare(rng, "C17", name, "C17", (4, 30));
    let cfg = edge_cfg(rng, !is_open("D8"));
    rebuild_with_cfg(&mut p, cfg);
    p
}

fn c17_seek(rng: &mut Rng, name: &'static str) -> Prepared {
    // name = "seek-D6" | "seek-D7" | "seek-D8"
    let finding = &name[5..];
    let online = format!("C17:seek:{}", finding);
    let mut p = seq_prepare(rng, "C17", name, &online, (4, 24));
    let mut cfg = edge_cfg(rng, false);
    if finding == "D8" {
        cfg.counters = 1;
        cfg.weight = cfg.weight.min(60);
    }
    if finding == "D10" {
        cfg.weight = *rng.pick(&[i64::MAX, i64::MAX - 1]);
    }
    rebuild_with_cfg(&mut p, cfg);
    p
}

fn rebuild_with_cfg(p: &mut Prepared, cfg: Cfg) {
    let (focus, own) = focus_for(&p.scenario.online);
    let drv = SeqDriver::new(focus, &cfg, p.scenario.online_seed, p.scenario.online_steps as usize, None, own);
    p.scenario.cfg = cfg;
    p.online = Some(Box::new(drv));
}

type Own = fn(&Mis, &Op, &Model) -> Option<String>;

fn ctx_state(m: &Mis) -> String {
    m.ctx.split(',').find(|p| p.starts_with("state=")).unwrap_or("state=?").to_string()
}

fn own_all(m: &Mis, _op: &Op, _pre: &Model) -> Option<String> {
    if m.aspect == "hit_ratio" && is_open("D9") {
        return None;
    }
    Some(format!("ALL/{}/{}/{}", m.aspect, m.class, m.ctx))
}

fn own_c01(m: &Mis, op: &Op, _pre: &Model) -> Option<String> {
    if m.aspect == "limit" {
        let sig = format!("C01/{}/after={}", m.class, oracle::opname2(op));
        if sig == "C01/over-limit/after=put_or_update" && is_open("D5") {
            // the listed finding itself (its pinned witness is replayed by the check): do not end the
            // run on it, what happens *after* the total went over the limit is still to be judged
            simsync::sim::probe("seq.known_D5_seen_and_passed");
            return None;
        }
        return Some(sig);
    }
    None
}

fn own_c03(m: &Mis, _op: &Op, _pre: &Model) -> Option<String> {
    if m.aspect == "sweep-semantic" && (m.class == "swept-not-due" || m.class == "swept-no-ttl") {
        return Some(format!("C03/lost-live-key/seq,by-sweep,{}", m.class));
    }
    if m.aspect == "read" && (m.ctx.contains("state=live,") || m.ctx.contains("state=live-ttl,")) {
        let class = if m.class == "missing" { "lost-live-key" } else { "altered-value" };
        return Some(format!("C03/{}/seq,{}", class, ctx_state(m)));
    }
    None
}

fn own_c04(m: &Mis, op: &Op, pre: &Model) -> Option<String> {
    let after_delete = matches!(op, Op::Delete { .. }) || (matches!(op, Op::AwaitAll) && pre.pending.iter().any(|p| matches!(p, Op::Delete { .. })));
    if after_delete {
        return match m.aspect {
            "status" => Some(format!("C04/{}/{}", m.class, ctx_state(m))),
            "store" => Some("C04/still-present-or-state-changed/store".to_string()),
            "weights" | "weight_used" | "accounting" => Some(format!("C04/weight-not-released/{}", m.aspect)),
            _ => None,
        };
    }
    if let Op::Read { .. } = op {
        if m.aspect == "read" && m.class == "served-unreadable" && m.ctx.contains("state=soft-deleted") {
            return Some("C04/read-after-delete-returned/seq".to_string());
        }
    }
    if let Op::Put { key, .. } = op {
        if m.aspect == "status" && pre.state(*key) == KState::Absent && pre.last_mutation == "delete" && pre.last_key == Some(*key) {
            return Some("C04/reput-rejected/seq".to_string());
        }
    }
    None
}

fn own_c05(m: &Mis, op: &Op, _pre: &Model) -> Option<String> {
    if m.aspect == "accounting" {
        return Some(format!("C05/{}/seq,after={}", m.class, oracle::opname2(op)));
    }
    None
}

fn own_c06(m: &Mis, op: &Op, pre: &Model) -> Option<String> {
    if m.aspect == "admission" {
        return Some(format!("C06/{}/seq", m.class));
    }
    // the evictions reported by the decision events must be what really happened
    let put_on_absent = match op {
        Op::Put { key, .. } | Op::Upsert { key, .. } => !pre.keys.contains_key(key),
        _ => false,
    };
    if put_on_absent && matches!(m.aspect, "store" | "weights" | "weight_used") {
        return Some(format!("C06/event-vs-observed/{}", m.aspect));
    }
    None
}

fn own_c07(m: &Mis, op: &Op, pre: &Model) -> Option<String> {
    if let Op::Put { key, .. } = op {
        if m.aspect == "status" && (m.class == "readable-not-rejected" || m.class == "absent-rejected-as-existing") {
            return Some(format!("C07/{}/{}", m.class, m.ctx));
        }
        if pre.state(*key).readable() && matches!(m.aspect, "store" | "weights" | "weight_used") {
            return Some(format!("C07/overwrote-readable/{}", m.aspect));
        }
    }
    None
}

fn own_c08(m: &Mis, op: &Op, pre: &Model) -> Option<String> {
    if m.aspect == "sweep-semantic" && (m.class == "swept-not-due" || m.class == "swept-no-ttl") && m.ctx == "last=upsert" {
        return Some(format!("C08/accepted-upsert-lost-to-sweep/seq,{}", m.class));
    }
    let upsert_step = matches!(op, Op::Upsert { .. })
        || (matches!(op, Op::AwaitAll) && pre.pending.iter().any(|p| matches!(p, Op::Upsert { .. })));
    if upsert_step {
        return match m.aspect {
            "upsert" => Some(format!("C08/{}/{}", m.class, ctx_state(m))),
            "status" => Some(format!("C08/status-{}/{}", m.class, ctx_state(m))),
            "store" => Some("C08/field-not-applied-or-other-field-changed/store".to_string()),
            "weights" | "weight_used" => Some(format!("C08/weight-not-applied/{}", m.aspect)),
            _ => None,
        };
    }
    if let Op::Read { .. } = op {
        if m.aspect == "read" && pre.last_mutation == "put_or_update" {
            let class = if pre.pending.is_empty() { "not-applied" } else { "not-visible-at-return" };
            return Some(format!("C08/{}/{},{}", class, m.class, ctx_state(m)));
        }
    }
    None
}

fn own_c09(m: &Mis, op: &Op, pre: &Model) -> Option<String> {
    if m.aspect == "sweep-semantic" && (m.class == "swept-not-due" || m.class == "swept-no-ttl") {
        return Some(format!("C09/hidden-before-expiry/seq,by-sweep,{}", m.class));
    }
    // the deadline a put / upsert stores is "time of the call + the requested time-to-live"
    let sets_ttl = matches!(op, Op::Put { ttl: Some(_), .. } | Op::Upsert { ttl: Some(_), .. });
    if sets_ttl && m.aspect == "store" && m.ctx == "only-deadlines-differ" {
        return Some("C09/deadline-not-as-requested/seq".to_string());
    }
    if m.aspect != "read" {
        return None;
    }
    let st = ctx_state(m);
    match (m.class.as_str(), st.as_str()) {
        ("served-unreadable", "state=expired-unswept") => Some("C09/served-after-expiry/seq".to_string()),
        ("missing", "state=live-ttl") => Some("C09/hidden-before-expiry/seq".to_string()),
        ("wrong-value", "state=live-ttl") => Some("C09/wrong-value-before-expiry/seq".to_string()),
        ("missing", "state=live") if matches!(pre.last_mutation.as_str(), "advance" | "tick" | "sweep" | "rotate") => {
            Some("C09/no-ttl-expired/seq".to_string())
        }
        _ => None,
    }
}

fn own_c10(m: &Mis, _op: &Op, _pre: &Model) -> Option<String> {
    // behavioural judgement only: which keys a sweep removed, whether they were due, whether their
    // weight was released, and whether a full rotation removed everything that had expired. How the
    // implementation indexes expiries and which tick visits which shard is not C10's business.
    if m.aspect == "sweep-semantic" {
        return Some(format!("C10/{}/seq", m.class));
    }
    None
}

fn own_c16(m: &Mis, _op: &Op, _pre: &Model) -> Option<String> {
    // only what the statement says: the identities (lookups, keys, weight), the number of puts refused
    // by admission, and the hit ratio. The individual counters are predicted by the model too, but
    // their exact values are not C16's business.
    if m.aspect == "stats.identity" {
        return Some(format!("C16/{}/seq", m.class));
    }
    if m.aspect == "hit_ratio" {
        return Some(format!("C16/hit-ratio/{}", m.ctx));
    }
    None
}

fn own_c14(m: &Mis, _op: &Op, _pre: &Model) -> Option<String> {
    if m.aspect == "sketch" {
        return Some(format!("C14/{}/{}", m.class, m.ctx));
    }
    None
}

fn own_none(_m: &Mis, _op: &Op, _pre: &Model) -> Option<String> {
    None
}

/// Focus and ownership of a SEQ driver by its online name ("<property>" or "<property>:seek:<finding>").
fn focus_for(name: &str) -> (Focus, Own) {
    let mut parts = name.split(':');
    let prop = parts.next().unwrap_or("ALL");
    let seek = if parts.next() == Some("seek") { parts.next() } else { None };
    let mut f = Focus::base("ALL");
    f.avoid_put_on_unreadable_present = is_open("D3") && seek != Some("D3");
    f.avoid_value_only_upsert_on_unreadable = is_open("D4") && seek != Some("D4");
    f.avoid_raise_beyond_free = is_open("D5") && seek != Some("D5");
    f.avoid_remove_ttl_underflow = is_open("D6") && seek != Some("D6");
    f.avoid_ttl_add_overflow = is_open("D10") && seek != Some("D10");
    f.max_ttl_secs = 86_400 * 365;
    let own: Own = match prop {
        "C01" => {
            f.property = "C01";
            f.mix = [30, 28, 8, 8, 6, 6, 4, 10];
            own_c01
        }
        "C03" => {
            f.property = "C03";
            f.mix = [22, 18, 12, 30, 8, 5, 3, 2];
            own_c03
        }
        "C04" => {
            f.property = "C04";
            f.mix = [25, 10, 30, 20, 6, 4, 3, 2];
            f.later_pct = 50;
            own_c04
        }
        "C05" => {
            f.property = "C05";
            own_c05
        }
        "C06" => {
            f.property = "C06";
            f.mix = [34, 6, 10, 46, 2, 1, 0, 1];
            f.ttl_pct = 10;
            f.check_admission = true;
            f.consumer_idle_pct = 10;
            f.verify_read_pct = 0;
            own_c06
        }
        "C06R" => {
            // the consumer is NOT quiesced before a put: batches may be applied while the worker decides
            f.property = "C06";
            f.mix = [34, 4, 8, 50, 2, 1, 0, 1];
            f.ttl_pct = 5;
            f.check_admission = true;
            f.admission_race = true;
            f.consumer_idle_pct = 0;
            f.verify_read_pct = 0;
            own_c06
        }
        "C14" => {
            f.property = "C14";
            f.mix = [10, 3, 2, 82, 1, 1, 0, 1];
            f.ttl_pct = 5;
            f.mirror = true;
            own_c14
        }
        "C14P" => {
            f.property = "C14";
            f.mix = [30, 2, 6, 60, 0, 1, 0, 1];
            f.ttl_pct = 0;
            f.mirror = true;
            // compare only every few steps: in between, batches stay in flight while puts evict
            f.mirror_every = 4;
            own_c14
        }
        "C07" => {
            f.property = "C07";
            f.mix = [40, 8, 10, 18, 14, 5, 3, 2];
            f.ttl_pct = 55;
            f.prefer = vec![KState::Live, KState::LiveTtl, KState::ExpiredUnswept];
            own_c07
        }
        "C08" => {
            f.property = "C08";
            f.mix = [16, 40, 6, 18, 12, 4, 2, 2];
            f.ttl_pct = 50;
            f.later_pct = 40;
            f.prefer = vec![KState::Live, KState::LiveTtl, KState::ExpiredUnswept, KState::Absent];
            own_c08
        }
        "C09" => {
            f.property = "C09";
            f.mix = [20, 18, 4, 34, 18, 3, 1, 2];
            f.ttl_pct = 75;
            own_c09
        }
        "C09B" => {
            // separate stratum: the clock may also move backwards
            f.property = "C09";
            f.mix = [20, 18, 4, 34, 20, 3, 0, 1];
            f.ttl_pct = 75;
            f.rewind_pct = 40;
            own_c09
        }
        "C10" => {
            f.property = "C10";
            f.mix = [22, 18, 8, 8, 16, 16, 10, 2];
            f.ttl_pct = 75;
            own_c10
        }
        "C16" => {
            f.property = "C16";
            f.mix = [22, 14, 8, 34, 6, 5, 3, 8];
            own_c16
        }
        "C17" => {
            f.property = "C17";
            f.edge = true;
            f.mix = [28, 30, 8, 12, 8, 6, 4, 4];
            f.ttl_pct = 60;
            f.later_pct = 10;
            if !(is_open("D7") && seek != Some("D7")) {
                f.max_ttl_secs = u64::MAX;
            }
            own_none
        }
        _ => own_all,
    };
    (f, own)
}

fn seq_prepare(rng: &mut Rng, property: &str, stratum: &'static str, online: &str, steps: (u64, u64)) -> Prepared {
    let cfg = seq_cfg(rng);
    let (focus, own) = focus_for(online);
    let n = rng.range(steps.0, steps.1) as usize;
    let seed = rng.next();
    let mut sched = gen_sched(rng);
    if rng.chance(25, 100) {
        let role = *rng.pick(&[RoleName::Worker, RoleName::Sweeper, RoleName::Consumer]);
        sched.stalls.push(gen_stall(rng, role));
    }
    let drv = SeqDriver::new(focus, &cfg, seed, n, None, own);
    let sc = Scenario {
        property: property.to_string(),
        family: "SEQ".to_string(),
        stratum: stratum.to_string(),
        cfg,
        threads: vec![vec![]],
        online: online.to_string(),
        online_seed: seed,
        online_steps: n as u32,
        sched,
        salt: rng.next(),
    };
    Prepared { scenario: sc, online: Some(Box::new(drv)) }
}

fn all_seq(rng: &mut Rng, name: &'static str) -> Prepared {
    seq_prepare(rng, "ALL", name, "ALL", (5, 40))
}


// ---------------------------------------------------------------- more CONC strata
fn owners_params(rng: &mut Rng, ttl_pct: u64) -> ConcParams {
    let mut p = ConcParams::base();
    p.owner_per_key = true;
    p.pressure = Pressure::Fits;
    p.threads = (2, 4);
    p.ops = (4, 14);
    p.keys = (2, 6);
    p.ttl_pct = ttl_pct;
    p.mix = [24, 20, 10, 40, 1, 1, 0, 4];
    p.time_thread = true;
    let _ = rng;
    p
}

fn c03_conc(rng: &mut Rng, name: &'static str) -> Prepared {
    let mut p = owners_params(rng, 35);
    p.bare_ttl_pct = 20;
    p.fits_slack = *rng.pick(&[0i64, 3, 30]);
    prep(conc(rng, "C03", name, &p))
}

fn c03_conc_sweeps(rng: &mut Rng, name: &'static str) -> Prepared {
    let mut p = owners_params(rng, 80);
    p.bare_ttl_pct = 40;
    p.extra_sweeps = true;
    p.fits_slack = *rng.pick(&[0i64, 3, 30]);
    p.mix = [24, 28, 8, 36, 0, 0, 0, 4];
    prep(conc(rng, "C03", name, &p))
}

fn c09_conc_sweeps(rng: &mut Rng, name: &'static str) -> Prepared {
    let mut p = owners_params(rng, 85);
    p.bare_ttl_pct = 30;
    p.extra_sweeps = true;
    p.mix = [22, 30, 6, 38, 0, 0, 0, 4];
    prep(conc(rng, "C09", name, &p))
}

/// One writer per key; weights only ever shrink (explicit weights below everything issued before
/// for that key), TTL keys, many sweeps: UpdateWeight commands race the sweeper's deletes.
fn shrink_vs_sweep(rng: &mut Rng, property: &str, name: &'static str) -> Prepared {
    let mut p = owners_params(rng, 80);
    p.extra_sweeps = true;
    p.observer = true;
    p.pressure = *rng.pick(&[Pressure::Fits, Pressure::Tight]);
    p.mix = [26, 40, 6, 22, 4, 0, 0, 2];
    let mut sc = conc(rng, property, name, &p);
    let ws = match &sc.cfg.weight_fn {
        WeightFn::PerKey(ws) => ws.clone(),
        _ => unreachable!(),
    };
    let mut floor: Vec<i64> = ws.clone();
    for prog in sc.threads.iter_mut() {
        for op in prog.iter_mut() {
            match op {
                Op::Put { key, weight, .. } => {
                    *weight = Some(ws[*key as usize]);
                }
                Op::Upsert { key, weight, val, .. } => {
                    let k = *key as usize;
                    let w = rng.range_i(1, floor[k].max(1));
                    floor[k] = w;
                    *weight = Some(w);
                    if val.is_none() {
                        // keep it a pure weight / TTL change
                    }
                }
                _ => {}
            }
        }
    }
    prep(sc)
}

fn c01_shrink(rng: &mut Rng, name: &'static str) -> Prepared {
    shrink_vs_sweep(rng, "C01", name)
}

fn c05_shrink(rng: &mut Rng, name: &'static str) -> Prepared {
    shrink_vs_sweep(rng, "C05", name)
}

fn c09_conc_fits(rng: &mut Rng, name: &'static str) -> Prepared {
    let mut p = owners_params(rng, 85);
    p.mix = [22, 22, 4, 48, 0, 0, 0, 4];
    p.bare_ttl_pct = 20;
    prep(conc(rng, "C09", name, &p))
}

fn c09_conc_pressure(rng: &mut Rng, name: &'static str) -> Prepared {
    let mut p = owners_params(rng, 85);
    p.pressure = Pressure::Over;
    prep(conc(rng, "C09", name, &p))
}

fn c10_conc(rng: &mut Rng, name: &'static str) -> Prepared {
    let mut p = owners_params(rng, 85);
    p.bare_ttl_pct = 25;
    p.mix = [26, 26, 8, 36, 0, 0, 0, 4];
    let mut sc = conc(rng, "C10", name, &p);
    // make sure sweeps really happen: a dedicated time thread with ticks and rotations
    let n = rng.range(3, 8) as usize;
    let mut prog = vec![];
    for _ in 0..n {
        match rng.below(10) {
            0..=3 => prog.push(Op::Advance(*rng.pick(&ADVANCES))),
            4..=6 => prog.push(Op::Tick),
            _ => prog.push(Op::Rotate),
        }
    }
    sc.threads.push(prog);
    prep(sc)
}

fn c04_conc(rng: &mut Rng, name: &'static str) -> Prepared {
    let mut p = ConcParams::base();
    p.keys = (1, 3);
    p.mix = [26, 12, 26, 32, 0, 0, 3, 1];
    p.valueless_pct = 50;
    p.wait_mix = [35, 40, 25];
    p.pressure = *rng.pick(&[Pressure::Fits, Pressure::Fits, Pressure::Tight]);
    p.stall_pct = 50;
    p.stall_roles = vec![RoleName::Worker, RoleName::Worker, RoleName::Sweeper];
    prep(conc(rng, "C04", name, &p))
}

fn c05_conc(rng: &mut Rng, name: &'static str) -> Prepared {
    let mut p = ConcParams::base();
    p.keys = (1, 3);
    p.threads = (2, 4);
    p.ops = (2, 8);
    p.mix = [40, 25, 15, 12, 2, 0, 4, 2];
    p.wait_mix = [20, 45, 35];
    p.tiny_queue_pct = 75;
    p.stall_pct = 55;
    p.stall_roles = vec![RoleName::Worker, RoleName::Worker, RoleName::Sweeper];
    p.pressure = *rng.pick(&[Pressure::Over, Pressure::Tight, Pressure::Fits]);
    p.valueless_pct = 25;
    prep(conc(rng, "C05", name, &p))
}

/// One or two keys that live and die by TTL while callers delete and re-create them and the
/// sweeper is (often) stalled in the middle of a sweep: the sweeper's "release the weight of the
/// id, then remove the store entry of its key" races the worker's delete + re-put of that key.
fn c05_reput_vs_sweep(rng: &mut Rng, name: &'static str) -> Prepared {
    let mut p = ConcParams::base();
    p.keys = (1, 2);
    p.threads = (2, 4);
    p.ops = (3, 9);
    p.mix = [30, 30, 22, 10, 2, 0, 4, 2];
    p.ttl_pct = 65;
    p.wait_mix = [45, 35, 20];
    p.extra_sweeps = true;
    p.stall_pct = 70;
    p.stall_roles = vec![RoleName::Sweeper, RoleName::Sweeper, RoleName::Worker];
    p.tiny_queue_pct = 30;
    p.valueless_pct = 20;
    p.pressure = *rng.pick(&[Pressure::Fits, Pressure::Tight]);
    prep(conc(rng, "C05", name, &p))
}

fn c11_conc(rng: &mut Rng, name: &'static str) -> Prepared {
    let mut p = ConcParams::base();
    p.keys = (3, 8);
    p.threads = (1, 4);
    p.ops = (4, 14);
    p.mix = [40, 14, 22, 8, 0, 0, 12, 4];
    p.wait_mix = [10, 75, 15];
    p.ttl_pct = 10;
    p.tiny_queue_pct = 80;
    p.stall_pct = 65;
    p.stall_roles = vec![RoleName::Worker];
    p.pressure = *rng.pick(&[Pressure::Fits, Pressure::Tight]);
    let mut sc = conc(rng, "C11", name, &p);
    // some upserts lower the charged weight (they, too, are queued behind the thread's earlier writes)
    for prog in sc.threads.iter_mut() {
        for op in prog.iter_mut() {
            if let Op::Upsert { weight: Some(w), .. } = op {
                if *w > 1 && rng.chance(1, 2) {
                    *w = rng.range_i(1, *w);
                }
            }
        }
    }
    // owner-only put -> delete pairs at the end of some programs
    let n_threads = sc.threads.len();
    for t in 0..n_threads {
        if rng.chance(1, 2) {
            let key = sc.cfg.keys + t as u32; // a key nobody else touches
            let i = sc.threads[t].len();
            sc.threads[t].push(Op::Put { key, val: token(t, i, key), weight: Some(1), ttl: None, wait: Wait::Later });
            sc.threads[t].push(Op::Delete { key, wait: Wait::Later });
            sc.threads[t].push(Op::AwaitAll);
        }
    }
    sc.cfg.keys += n_threads as u32;
    if let WeightFn::PerKey(ws) = &mut sc.cfg.weight_fn {
        for _ in 0..n_threads {
            ws.push(1);
        }
    }
    sc.cfg.weight += n_threads as i64;
    prep(sc)
}

fn c07_conc(rng: &mut Rng, name: &'static str) -> Prepared {
    let mut p = ConcParams::base();
    p.keys = (1, 3);
    p.threads = (2, 4);
    p.ops = (2, 8);
    p.mix = [55, 15, 10, 14, 0, 0, 4, 2];
    p.wait_mix = [20, 45, 35];
    p.ttl_pct = 25;
    p.tiny_queue_pct = 75;
    p.stall_pct = 55;
    p.stall_roles = vec![RoleName::Worker];
    p.pressure = *rng.pick(&[Pressure::Fits, Pressure::Tight, Pressure::Over]);
    prep(conc(rng, "C07", name, &p))
}

/// Owners delete their key (often without awaiting), delete it again and await that, then put it:
/// once any delete of the key has been acknowledged the key is gone for good and the put is
/// decided by admission alone, however far the worker lags behind.
fn c07_delete_twice(rng: &mut Rng, name: &'static str) -> Prepared {
    let mut p = ConcParams::base();
    p.keys = (2, 4);
    p.threads = (1, 3);
    p.ttl_pct = 0;
    p.time_thread = false;
    p.pressure = Pressure::Fits;
    p.tiny_queue_pct = 50;
    p.stall_pct = 60;
    p.stall_roles = vec![RoleName::Worker];
    let mut sc = conc(rng, "C07", name, &p);
    let n = sc.threads.len();
    let keys = sc.cfg.keys;
    let mut threads = vec![];
    for t in 0..n {
        let mine: Vec<u32> = (0..keys).filter(|k| (*k as usize) % n == t).collect();
        let mut prog = vec![];
        if mine.is_empty() {
            prog.push(crate::gen::gen_read(rng, keys));
        }
        for _ in 0..rng.range(1, 3) {
            for &k in &mine {
                let i = prog.len();
                prog.push(Op::Put { key: k, val: token(t, i, k), weight: None, ttl: None, wait: *rng.pick(&[Wait::Now, Wait::Later]) });
                if rng.chance(1, 2) {
                    prog.push(crate::gen::gen_read(rng, keys));
                }
                prog.push(Op::Delete { key: k, wait: *rng.pick(&[Wait::Never, Wait::Later, Wait::Now]) });
                if rng.chance(7, 10) {
                    prog.push(Op::Delete { key: k, wait: Wait::Now });
                }
                if rng.chance(1, 3) {
                    prog.push(crate::gen::gen_read(rng, keys));
                }
                let i = prog.len();
                prog.push(Op::Put { key: k, val: token(t, i, k), weight: None, ttl: None, wait: Wait::Now });
            }
        }
        prog.push(Op::AwaitAll);
        threads.push(prog);
    }
    sc.threads = threads;
    prep(sc)
}

/// Owners issue unawaited weight / value upserts on their own live keys (no TTLs, nothing can be
/// evicted): the final charged weight and value are determined by program order.
fn c08_conc(rng: &mut Rng, name: &'static str) -> Prepared {
    let n_threads = rng.range(1, 3) as usize;
    let keys = rng.range(n_threads as u64, (n_threads * 2) as u64) as u32;
    let base: Vec<i64> = (0..keys).map(|_| rng.range_i(1, 6)).collect();
    let cfg = Cfg {
        weight: 400,
        capacity: 16,
        counters: 64,
        shards: *rng.pick(&[2usize, 4]),
        queue: *rng.pick(&[1usize, 1, 2, 64]),
        pool: 1,
        buffer: 2,
        hash: *rng.pick(&[HashMode::Identity, HashMode::Constant]),
        weight_fn: WeightFn::PerKey(base.clone()),
        start: Dur::secs(1_700_000_000),
        keys,
    };
    let mut threads = vec![];
    for t in 0..n_threads {
        let mine: Vec<u32> = (0..keys).filter(|k| (*k as usize) % n_threads == t).collect();
        let mut prog = vec![];
        let mut i = 0usize;
        for k in &mine {
            prog.push(Op::Put { key: *k, val: token(t, i, *k), weight: Some(rng.range_i(1, 6)), ttl: None, wait: Wait::Now });
            i += 1;
        }
        let n = rng.range(2, 8) as usize;
        for _ in 0..n {
            let k = *rng.pick(&mine);
            let op = match rng.below(10) {
                0..=5 => {
                    // weights from a tiny set, so that "the weight currently charged" is requested often
                    let val = if rng.chance(1, 2) { Some(token(t, i, k)) } else { None };
                    Op::Upsert { key: k, val, weight: Some(rng.range_i(1, 4)), ttl: None, remove_ttl: false, wait: *rng.pick(&[Wait::Later, Wait::Later, Wait::Never, Wait::Now]) }
                }
                6..=7 => Op::Upsert { key: k, val: Some(token(t, i, k)), weight: None, ttl: None, remove_ttl: false, wait: *rng.pick(&[Wait::Later, Wait::Never, Wait::Now]) },
                8 => Op::Read { kind: *rng.pick(&ALL_READS), keys: vec![k] },
                _ => {
                    if rng.chance(1, 2) {
                        // delete, then (possibly before the Delete is applied) an upsert: it must act as a put
                        prog.push(Op::Delete { key: k, wait: *rng.pick(&[Wait::Later, Wait::Now]) });
                        i += 1;
                        Op::Upsert { key: k, val: Some(token(t, i, k)), weight: Some(rng.range_i(1, 4)), ttl: None, remove_ttl: false, wait: Wait::Later }
                    } else {
                        Op::AwaitAll
                    }
                }
            };
            prog.push(op);
            i += 1;
        }
        prog.push(Op::AwaitAll);
        threads.push(prog);
    }
    let mut sched = gen_sched(rng);
    if rng.chance(60, 100) {
        sched.stalls.push(gen_stall(rng, RoleName::Worker));
    }
    prep(Scenario {
        property: "C08".to_string(),
        family: "CONC".to_string(),
        stratum: name.to_string(),
        cfg,
        threads,
        online: String::new(),
        online_seed: 0,
        online_steps: 0,
        sched,
        salt: rng.next(),
    })
}

fn c15_pipe(rng: &mut Rng, name: &'static str) -> Prepared {
    let mut p = ConcParams::base();
    p.keys = (2, 4);
    p.threads = (1, 4);
    p.ops = (6, 24);
    p.mix = [6, 3, 1, 86, 0, 2, 1, 1];
    p.ttl_pct = 0;
    p.time_thread = false;
    p.pressure = Pressure::Fits;
    p.stall_pct = 0;
    p.wait_mix = [80, 15, 5];
    let mut sc = conc(rng, "C15", name, &p);
    sc.cfg.pool = *rng.pick(&[1usize, 1, 2, 3]);
    sc.cfg.buffer = *rng.pick(&[1usize, 1, 2, 3]);
    // thread 0 first puts every key so that reads hit
    let mut pre: Vec<Op> = (0..sc.cfg.keys).map(|k| Op::Put { key: k, val: token(0, 900 + k as usize, k), weight: None, ttl: None, wait: Wait::Now }).collect();
    pre.extend(sc.threads[0].drain(..));
    sc.threads[0] = pre;
    match rng.below(10) {
        0..=3 => sc.sched.stalls.push(Stall { role: RoleName::Consumer, from: 0, until: u64::MAX }),
        4..=6 => sc.sched.stalls.push(gen_stall(rng, RoleName::Consumer)),
        _ => {}
    }
    prep(sc)
}

/// One caller: every key is put (and acknowledged) first, then only reads follow, so a key's
/// presence never changes under a read and multi_get may name a key several times (each lookup is
/// a hit of its own and must leave its own access record).
fn c15_pipe_repeats(rng: &mut Rng, name: &'static str) -> Prepared {
    let mut p = ConcParams::base();
    p.keys = (2, 4);
    p.threads = (1, 1);
    p.ops = (8, 30);
    p.mix = [0, 0, 0, 96, 0, 2, 0, 2];
    p.ttl_pct = 0;
    p.time_thread = false;
    p.pressure = Pressure::Fits;
    p.stall_pct = 0;
    MULTI_GET_MAY_REPEAT_KEYS.with(|c| c.set(true));
    let mut sc = conc(rng, "C15", name, &p);
    MULTI_GET_MAY_REPEAT_KEYS.with(|c| c.set(false));
    sc.threads.truncate(1); // (one run in ten would get a second caller)
    sc.cfg.pool = *rng.pick(&[1usize, 1, 2, 3]);
    sc.cfg.buffer = *rng.pick(&[1usize, 1, 2, 3]);
    let mut pre: Vec<Op> = (0..sc.cfg.keys).map(|k| Op::Put { key: k, val: token(0, 900 + k as usize, k), weight: None, ttl: None, wait: Wait::Now }).collect();
    pre.extend(sc.threads[0].drain(..));
    sc.threads[0] = pre;
    match rng.below(10) {
        0..=3 => sc.sched.stalls.push(Stall { role: RoleName::Consumer, from: 0, until: u64::MAX }),
        4..=6 => sc.sched.stalls.push(gen_stall(rng, RoleName::Consumer)),
        _ => {}
    }
    prep(sc)
}

fn c16_conc(rng: &mut Rng, name: &'static str) -> Prepared {
    let mut p = ConcParams::base();
    p.owner_per_key = is_open("D2");
    p.keys = (2, 6);
    p.mix = [24, 16, 10, 42, 2, 3, 1, 2];
    p.pressure = *rng.pick(&[Pressure::Over, Pressure::Tight, Pressure::Fits]);
    // all-hit / all-miss workloads now and then
    let mut sc = conc(rng, "C16", name, &p);
    match rng.below(8) {
        0 => {
            // all-miss: nobody ever writes
            for t in sc.threads.iter_mut() {
                for op in t.iter_mut() {
                    if op.is_write() {
                        *op = gen_read(rng, sc.cfg.keys);
                    }
                }
            }
        }
        _ => {}
    }
    prep(sc)
}

thread_local! {
    static CUR_PROPERTY: RefCell<String> = RefCell::new(String::new());
}

pub fn set_property(p: &str) {
    CUR_PROPERTY.with(|c| *c.borrow_mut() = p.to_string());
}

fn x_seek(rng: &mut Rng, name: &'static str, finding: &str) -> Prepared {
    let prop = CUR_PROPERTY.with(|c| c.borrow().clone());
    let online = format!("{}:seek:{}", prop, finding);
    seq_prepare(rng, &prop, name, &online, (4, 24))
}
fn x_seek_d3(rng: &mut Rng, name: &'static str) -> Prepared {
    x_seek(rng, name, "D3")
}
fn x_seek_d4(rng: &mut Rng, name: &'static str) -> Prepared {
    x_seek(rng, name, "D4")
}
fn x_seek_d5(rng: &mut Rng, name: &'static str) -> Prepared {
    x_seek(rng, name, "D5")
}
fn x_seek_d6(rng: &mut Rng, name: &'static str) -> Prepared {
    x_seek(rng, name, "D6")
}

macro_rules! seq_stratum {
    ($fname:ident, $prop:expr, $online:expr, $lo:expr, $hi:expr) => {
        fn $fname(rng: &mut Rng, name: &'static str) -> Prepared {
            seq_prepare(rng, $prop, name, $online, ($lo, $hi))
        }
    };
}
seq_stratum!(c01_seq, "C01", "C01", 6, 40);
seq_stratum!(c03_seq, "C03", "C03", 30, 120);
seq_stratum!(c04_seq, "C04", "C04", 6, 40);
seq_stratum!(c05_seq, "C05", "C05", 6, 40);
seq_stratum!(c07_seq, "C07", "C07", 6, 40);
seq_stratum!(c08_seq, "C08", "C08", 6, 40);
seq_stratum!(c09_seq, "C09", "C09", 6, 40);
seq_stratum!(c09_seq_backward, "C09", "C09B", 6, 40);
seq_stratum!(c10_seq, "C10", "C10", 8, 50);
seq_stratum!(c16_seq, "C16", "C16", 6, 40);

pub fn plan(property: &str) -> Vec<Stratum> {
    let mut v = match property {
        "C01" => vec![
            Stratum { name: "conc-shrink-vs-sweep", share: 2, gen: c01_shrink },
            Stratum { name: "conc-observer", share: 3, gen: c01_conc },
            Stratum { name: "conc-evict-vs-sweep", share: 3, gen: c01_evict_vs_sweep },
            Stratum { name: "seq-model", share: 3, gen: c01_seq },
            Stratum { name: "seq-many-light-keys", share: 2, gen: c01_seq_many_light },
        ],
        "C02" => vec![Stratum { name: "conc", share: 10, gen: c02_conc }],
        "C03" => vec![
            Stratum { name: "conc-owners", share: 5, gen: c03_conc },
            Stratum { name: "conc-owners-sweeps", share: 3, gen: c03_conc_sweeps },
            Stratum { name: "seq-long", share: 3, gen: c03_seq },
        ],
        "C04" => vec![Stratum { name: "conc-delete-race", share: 6, gen: c04_conc }, Stratum { name: "seq-model", share: 4, gen: c04_seq }],
        "C05" => vec![
            Stratum { name: "conc-same-key-races", share: 5, gen: c05_conc },
            Stratum { name: "conc-shrink-vs-sweep", share: 2, gen: c05_shrink },
            Stratum { name: "conc-reput-vs-sweep", share: 2, gen: c05_reput_vs_sweep },
            Stratum { name: "seq-model", share: 1, gen: c05_seq },
        ],
        "C06" => vec![Stratum { name: "seq-admission", share: 7, gen: c06_seq }, Stratum { name: "seq-admission-racing-consumer", share: 3, gen: c06_seq_race }],
        "C07" => vec![
            Stratum { name: "seq-lifecycle", share: 6, gen: c07_seq },
            Stratum { name: "conc-same-key-puts", share: 3, gen: c07_conc },
            Stratum { name: "conc-delete-twice-then-put", share: 1, gen: c07_delete_twice },
        ],
        "C08" => vec![Stratum { name: "seq-upsert", share: 7, gen: c08_seq }, Stratum { name: "conc-unawaited-upserts", share: 3, gen: c08_conc }],
        "C09" => vec![
            Stratum { name: "seq-clock", share: 4, gen: c09_seq },
            Stratum { name: "seq-clock-backward", share: 1, gen: c09_seq_backward },
            Stratum { name: "conc-owners-fits", share: 2, gen: c09_conc_fits },
            Stratum { name: "conc-owners-fits-sweeps", share: 2, gen: c09_conc_sweeps },
            Stratum { name: "conc-owners-pressure", share: 2, gen: c09_conc_pressure },
        ],
        "C10" => vec![Stratum { name: "seq-sweeps", share: 6, gen: c10_seq }, Stratum { name: "conc-owners-sweeps", share: 4, gen: c10_conc }],
        "C11" => vec![Stratum { name: "conc-bursts", share: 10, gen: c11_conc }],
        "C12" => vec![Stratum { name: "conc-passive", share: 5, gen: c12_conc }, Stratum { name: "ack-manual-polls", share: 5, gen: c12_ack }],
        "C13" => vec![Stratum { name: "conc-chaos", share: 6, gen: c13_conc }, Stratum { name: "conc-chaos-upserts", share: 4, gen: c13_conc_upserts }],
        "C14" => vec![Stratum { name: "seq-sketch-mirror", share: 7, gen: c14_seq }, Stratum { name: "seq-sketch-mirror-pressure", share: 3, gen: c14_seq_pressure }],
        "C15" => vec![Stratum { name: "pipe", share: 8, gen: c15_pipe }, Stratum { name: "pipe-single-reader-repeated-keys", share: 2, gen: c15_pipe_repeats }],
        "C16" => vec![Stratum { name: "seq-model", share: 6, gen: c16_seq }, Stratum { name: "conc-quiescent", share: 4, gen: c16_conc }],
        "C17" => vec![Stratum { name: "seq-edge", share: 7, gen: c17_edge }, Stratum { name: "conc-hostile-ttl", share: 3, gen: c17_conc }],
        "C18" => vec![Stratum { name: "conc-hostile", share: 10, gen: c18_conc }],
        "ALL" => vec![Stratum { name: "seq-all", share: 10, gen: all_seq }],
        _ => vec![],
    };
    // Inputs that the main strata avoid because of an open finding are still exercised for every
    // sequential property in small "seek" strata, judged by that property's own ownership rules
    // (only the finding's own listed signature is tolerated, and only under its own property).
    if matches!(property, "C01" | "C03" | "C04" | "C05" | "C07" | "C08" | "C09" | "C10" | "C16") {
        for (finding, name, gen) in [
            ("D3", "seek-D3", x_seek_d3 as fn(&mut Rng, &'static str) -> Prepared),
            ("D4", "seek-D4", x_seek_d4 as fn(&mut Rng, &'static str) -> Prepared),
            ("D5", "seek-D5", x_seek_d5 as fn(&mut Rng, &'static str) -> Prepared),
        ] {
            if is_open(finding) {
                v.push(Stratum { name, share: 1, gen });
            }
        }
    }
    if property == "C06" && is_open("D5") {
        // admission decisions taken while the total is *over* the limit (reachable through D5 only)
        v.push(Stratum { name: "seek-D5", share: 1, gen: x_seek_d5 });
    }
    match property {
        "C01" | "C08" => {
            // D6 (removing the TTL of a key charged <= 24) panics in the caller on the unchanged
            // tree (C17's finding, noted here); should it stop panicking, what it does to the
            // charged weight is this property's business
            if is_open("D6") {
                v.push(Stratum { name: "seek-D6", share: 1, gen: x_seek_d6 });
            }
        }
        "C17" => {
            if is_open("D6") {
                v.push(Stratum { name: "seek-D6", share: 1, gen: c17_seek });
            }
            if is_open("D7") {
                v.push(Stratum { name: "seek-D7", share: 1, gen: c17_seek });
            }
            if is_open("D8") {
                v.push(Stratum { name: "seek-D8", share: 1, gen: c17_seek });
            }
            if is_open("D10") {
                v.push(Stratum { name: "seek-D10", share: 1, gen: c17_seek });
            }
        }
        _ => {}
    }
    v
}

/// Rebuild the online driver of a recorded scenario (replay).
pub fn online_for(sc: &Scenario) -> Option<Box<dyn Online>> {
    if sc.online.is_empty() {
        return None;
    }
    let (focus, own) = focus_for(&sc.online);
    let follow = sc.threads.first().cloned().unwrap_or_default();
    Some(Box::new(SeqDriver::new(focus, &sc.cfg, sc.online_seed, follow.len(), Some(follow), own)))
}

pub fn judge(property: &str, sc: &Scenario, out: &RunOutput, _rec: &SchedRecord) -> Verdict {
    let hx = Hx::build(&out.log);
    let mut v = Verdict::new();
    v.violations.extend(out.violations.iter().cloned());
    let conc = sc.family == "CONC" || sc.family == "ACK";
    match property {
        "C01" if conc => oracle::c01(sc, &hx, &mut v),
        "C02" => oracle::c02(sc, &hx, &mut v),
        "C03" if conc => oracle::c03_conc(sc, &hx, &mut v),
        "C04" if conc => oracle::c04_conc(sc, &hx, &mut v),
        "C05" if conc => oracle::quiescent_accounting(&hx, "C05", &mut v),
        "C07" if conc => oracle::c07_conc(sc, &hx, &mut v),
        "C08" if conc => oracle::c08_conc(sc, &hx, &mut v),
        "C09" if conc => oracle::c09_conc(sc, &hx, &mut v, sc.stratum.contains("fits")),
        "C10" if conc => oracle::c10_conc(sc, &hx, &mut v),
        "C11" => oracle::c11(sc, &hx, &out.chans, &mut v),
        "C12" => {
            oracle::c12_passive(&hx, &mut v);
            v.nontrivial = hx.writes.iter().any(|w| w.ack_obs.map(|a| a.3 > 0).unwrap_or(false));
            if sc.family == "ACK" {
                oracle::c12_ack(sc, &hx, &mut v);
            }
        }
        "C13" => oracle::c13(sc, &hx, &mut v),
        "C15" => oracle::c15(sc, &hx, _rec, &out.chans, &mut v),
        "C16" if conc => oracle::quiescent_accounting(&hx, "C16", &mut v),
        "C17" if conc => {
            v.nontrivial = hx.hooks.iter().any(|h| matches!(h.2, crate::hist::Hook::SweepExpired { .. }))
                && hx.hooks.iter().any(|h| matches!(h.2, crate::hist::Hook::Evicted { .. }));
        }
        "C18" => {
            v.nontrivial = out.chans.iter().any(|c| c.send_blocked > 0)
                || hx.hooks.iter().any(|h| matches!(h.2, crate::hist::Hook::SweepExpired { .. } | crate::hist::Hook::Evicted { .. }));
            if out.chans.iter().any(|c| c.role == "worker" && c.send_blocked > 0) {
                v.probes.push("send_blocked_on_full_command_queue");
            }
        }
        _ => {}
    }
    if !conc {
        // SEQ family: the online driver judged every step; a run is non-trivial if it exercised
        // what the property is about (per-property rule, rules.json)
        v.nontrivial = seq_nontrivial(property, &hx);
        for p in seq_probes(&hx) {
            v.probes.push(p);
        }
    }
    // generic reach probes
    if conc {
        for p in race_probes(&hx) {
            v.probes.push(p);
        }
    }
    for c in &out.chans {
        if c.role == "worker" && c.send_blocked > 0 {
            v.probes.push("fault.command_queue_full");
        }
        if c.role == "consumer" && c.try_send_full > 0 {
            v.probes.push("fault.access_channel_full_drop");
        }
    }
    v
}

/// "This rare overlap of two background threads was reached" probes (concurrent families).
fn race_probes(hx: &Hx) -> Vec<&'static str> {
    use crate::hist::Hook;
    let mut p = vec![];
    // the sweeper expired an entry while the worker was making space; and: that entry was in the
    // worker's eviction sample
    let mut in_space = false;
    let mut sampled: Vec<u64> = vec![];
    let (mut during, mut sampled_swept, mut evict_after_sweep) = (false, false, false);
    let mut swept_in_this_space = false;
    for (_, role, ev) in &hx.hooks {
        match ev {
            Hook::CreateSpace { .. } => {
                in_space = true;
                sampled.clear();
                swept_in_this_space = false;
            }
            Hook::Victim { sample, .. } if in_space => {
                for s in sample {
                    if !sampled.contains(&s.0) {
                        sampled.push(s.0);
                    }
                }
            }
            Hook::Evicted { .. } if in_space && swept_in_this_space => evict_after_sweep = true,
            Hook::ApplyEnd { .. } if role == "worker" => in_space = false,
            Hook::SweepExpired { id, .. } if in_space => {
                during = true;
                swept_in_this_space = true;
                if sampled.contains(id) {
                    sampled_swept = true;
                }
            }
            _ => {}
        }
    }
    if during {
        p.push("race.sweep_expired_while_worker_makes_space");
    }
    if sampled_swept {
        p.push("race.sampled_victim_swept_under_the_worker");
    }
    if evict_after_sweep {
        p.push("race.eviction_continued_after_concurrent_sweep");
    }
    p
}

fn seq_probes(hx: &Hx) -> Vec<&'static str> {
    use crate::hist::Hook;
    let mut p = vec![];
    if hx.hooks.iter().any(|h| matches!(h.2, Hook::Evicted { .. })) {
        p.push("eviction");
    }
    if hx.hooks.iter().any(|h| matches!(h.2, Hook::SweepExpired { .. })) {
        p.push("sweep_expired_an_entry");
    }
    if hx.hooks.iter().any(|h| matches!(h.2, Hook::SampleEmpty)) {
        p.push("eviction_sample_ran_dry");
    }
    if hx.writes.iter().any(|w| matches!(w.status(), Some(crate::hist::St::RejNoSpace))) {
        p.push("rejected_not_enough_space");
    }
    if hx.writes.iter().any(|w| matches!(w.status(), Some(crate::hist::St::RejTooHeavy))) {
        p.push("rejected_heavier_than_cache");
    }
    if hx.writes.iter().any(|w| matches!(w.status(), Some(crate::hist::St::RejExists))) {
        p.push("rejected_key_already_exists");
    }
    if hx.writes.iter().any(|w| matches!(w.status(), Some(crate::hist::St::RejNoKey))) {
        p.push("rejected_key_does_not_exist");
    }
    p
}

fn seq_nontrivial(property: &str, hx: &Hx) -> bool {
    use crate::hist::{Hook, St};
    let evicted = hx.hooks.iter().any(|h| matches!(h.2, Hook::Evicted { .. }));
    let swept = hx.hooks.iter().any(|h| matches!(h.2, Hook::SweepExpired { .. }));
    let rejected = hx.writes.iter().any(|w| matches!(w.status(), Some(St::RejNoSpace) | Some(St::RejTooHeavy)));
    match property {
        "C01" => evicted || rejected,
        "C03" => swept || hx.writes.iter().filter(|w| w.is_delete() && w.status() == Some(St::Accepted)).count() > 0,
        "C04" => hx.writes.iter().any(|w| w.is_delete() && w.status() == Some(St::Accepted)),
        "C05" => evicted || swept,
        "C07" => hx.writes.iter().any(|w| w.is_put() && w.status() == Some(St::RejExists)),
        "C08" => hx.writes.iter().any(|w| w.is_upsert() && w.upsert_in_place()),
        "C09" => !hx.advances.is_empty() && hx.writes.iter().any(|w| matches!(&w.op, Op::Put { ttl: Some(_), .. } | Op::Upsert { ttl: Some(_), .. })),
        "C10" => swept,
        "C06" => hx.hooks.iter().any(|h| matches!(h.2, Hook::CreateSpace { .. })),
        "C14" => hx.hooks.iter().filter(|h| matches!(h.2, Hook::BatchApplied { .. })).count() >= 3,
        "C16" => !hx.reads.is_empty() && hx.writes.iter().any(|w| w.status() == Some(St::Accepted)),
        _ => true,
    }
}
