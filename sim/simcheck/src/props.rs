//! Property registry: for each property its strata (generators with relative shares) and its judge.
use crate::exec::{Online, Prepared, RunOutput};
use crate::gen::*;
use crate::hx::Hx;
use crate::oracle::{self, Verdict};
use crate::rng::Rng;
use crate::scenario::*;
use crate::sched::SchedRecord;

pub struct Stratum {
    pub name: &'static str,
    pub share: u32,
    pub gen: fn(&mut Rng, &'static str) -> Prepared,
}

fn prep(sc: Scenario) -> Prepared {
    Prepared { scenario: sc, online: None }
}

// ---------------------------------------------------------------- C01
fn c01_conc(rng: &mut Rng, name: &'static str) -> Prepared {
    let mut p = ConcParams::base();
    p.observer = true;
    p.pressure = if rng.chance(3, 4) { Pressure::Over } else { Pressure::Tight };
    p.upsert_may_raise = false;
    p.mix = [34, 16, 12, 20, 10, 1, 5, 2];
    prep(conc(rng, "C01", name, &p))
}

// ---------------------------------------------------------------- C02
fn c02_conc(rng: &mut Rng, name: &'static str) -> Prepared {
    let mut p = ConcParams::base();
    p.keys = (2, 4);
    p.pressure = *rng.pick(&[Pressure::Over, Pressure::Tight, Pressure::Fits]);
    p.mix = [25, 20, 12, 40, 0, 0, 5, 2];
    prep(conc(rng, "C02", name, &p))
}

// ---------------------------------------------------------------- C12 (passive, CONC)
fn c12_conc(rng: &mut Rng, name: &'static str) -> Prepared {
    let mut p = ConcParams::base();
    p.mix = [35, 20, 15, 15, 0, 0, 12, 3];
    p.wait_mix = [60, 30, 10];
    if rng.chance(1, 3) {
        p.shutdowns = 1;
    }
    prep(conc(rng, "C12", name, &p))
}

// ---------------------------------------------------------------- C13
fn c13_conc(rng: &mut Rng, name: &'static str) -> Prepared {
    let mut p = ConcParams::base();
    p.shutdowns = rng.range(1, 3) as usize;
    p.mix = [35, 18, 12, 25, 2, 1, 5, 2];
    p.wait_mix = [30, 35, 35];
    p.tiny_queue_pct = 70;
    p.stall_pct = 50;
    p.stall_roles = vec![RoleName::Worker, RoleName::Worker, RoleName::Consumer, RoleName::Sweeper];
    prep(conc(rng, "C13", name, &p))
}

// ---------------------------------------------------------------- C18
fn c18_conc(rng: &mut Rng, name: &'static str) -> Prepared {
    let mut p = ConcParams::base();
    p.threads = (3, 4);
    p.ops = (4, 12);
    p.keys = (2, 4);
    p.ttl_pct = 45;
    p.tiny_queue_pct = 85;
    p.upsert_may_raise = false;
    p.mix = [26, 26, 14, 26, 2, 1, 3, 2];
    if rng.chance(1, 4) {
        p.shutdowns = rng.range(1, 2) as usize;
    }
    let mut sc = conc(rng, "C18", name, &p);
    sc.cfg.shards = 2;
    sc.cfg.pool = 1;
    sc.cfg.buffer = 1;
    prep(sc)
}

pub fn plan(property: &str) -> Vec<Stratum> {
    match property {
        "C01" => vec![Stratum { name: "conc-observer", share: 10, gen: c01_conc }],
        "C02" => vec![Stratum { name: "conc", share: 10, gen: c02_conc }],
        "C12" => vec![Stratum { name: "conc-passive", share: 10, gen: c12_conc }],
        "C13" => vec![Stratum { name: "conc-chaos", share: 10, gen: c13_conc }],
        "C18" => vec![Stratum { name: "conc-hostile", share: 10, gen: c18_conc }],
        _ => vec![],
    }
}

/// Rebuild the online driver of a recorded scenario (replay).
pub fn online_for(_sc: &Scenario) -> Option<Box<dyn Online>> {
    None
}

pub fn judge(property: &str, sc: &Scenario, out: &RunOutput, _rec: &SchedRecord) -> Verdict {
    let hx = Hx::build(&out.log);
    let mut v = Verdict::new();
    v.violations.extend(out.violations.iter().cloned());
    match property {
        "C01" => oracle::c01(sc, &hx, &mut v),
        "C02" => oracle::c02(sc, &hx, &mut v),
        "C12" => {
            oracle::c12_passive(&hx, &mut v);
            v.nontrivial = hx.writes.iter().any(|w| w.ack_obs.map(|a| a.3 > 0).unwrap_or(false));
        }
        "C13" => oracle::c13(sc, &hx, &mut v),
        "C18" => {
            v.nontrivial = out.chans.iter().any(|c| c.send_blocked > 0)
                || hx.hooks.iter().any(|h| matches!(h.2, crate::hist::Hook::SweepExpired { .. } | crate::hist::Hook::Evicted { .. }));
            if out.chans.iter().any(|c| c.role == "worker" && c.send_blocked > 0) {
                v.probes.push("send_blocked_on_full_command_queue");
            }
        }
        _ => {}
    }
    // generic reach probes
    for c in &out.chans {
        if c.role == "worker" && c.send_blocked > 0 {
            v.probes.push("fault.command_queue_full");
        }
        if c.role == "consumer" && c.try_send_full > 0 {
            v.probes.push("fault.access_channel_full_drop");
        }
    }
    v
}
