//! The recorded history of one run: harness-side invoke/return/ack events and the cache's own hook
//! events, in one list whose index is the global event sequence number (a total order: the
//! simulation is sequential underneath).
use crate::scenario::{Dur, Op, ReadKind};
use serde::{Deserialize, Serialize};
use std::time::{SystemTime, UNIX_EPOCH};
use tinylfu_cached::cache::command::{CommandStatus, RejectionReason};
use tinylfu_cached::cache::stats::{StatsSummary, StatsType};
use tinylfu_cached::cache::verif::Event;

#[derive(Serialize, Deserialize, Clone, Copy, Debug, PartialEq, Eq, Hash)]
pub enum St {
    Pending,
    Accepted,
    RejNoSpace,
    RejTooHeavy,
    RejNoKey,
    RejExists,
    RejOther,
    ShuttingDown,
}

impl St {
    pub fn from(s: CommandStatus) -> St {
        match s {
            CommandStatus::Pending => St::Pending,
            CommandStatus::Accepted => St::Accepted,
            CommandStatus::ShuttingDown => St::ShuttingDown,
            CommandStatus::Rejected(r) => match r {
                RejectionReason::EnoughSpaceIsNotAvailableAndKeyFailedToEvictOthers => St::RejNoSpace,
                RejectionReason::KeyWeightIsGreaterThanCacheWeight => St::RejTooHeavy,
                RejectionReason::KeyDoesNotExist => St::RejNoKey,
                RejectionReason::KeyAlreadyExists => St::RejExists,
                _ => St::RejOther,
            },
        }
    }
    pub fn is_rejected(self) -> bool {
        matches!(self, St::RejNoSpace | St::RejTooHeavy | St::RejNoKey | St::RejExists | St::RejOther)
    }
}

pub fn dur_of(t: SystemTime) -> Dur {
    Dur::from_std(t.duration_since(UNIX_EPOCH).unwrap_or_default())
}

#[derive(Serialize, Deserialize, Clone, Debug, PartialEq, Eq, Hash, Default)]
pub struct Stats {
    pub hits: u64,
    pub misses: u64,
    pub keys_added: u64,
    pub keys_deleted: u64,
    pub keys_updated: u64,
    pub keys_rejected: u64,
    pub weight_added: u64,
    pub weight_removed: u64,
    pub access_added: u64,
    pub access_dropped: u64,
    /// hit ratio as reported, in millionths (so that the history stays integer / hashable)
    pub hit_ratio_ppm: u64,
}

impl Stats {
    pub fn from(s: &StatsSummary) -> Stats {
        let g = |t: StatsType| s.get(&t).unwrap_or(0);
        Stats {
            hits: g(StatsType::CacheHits),
            misses: g(StatsType::CacheMisses),
            keys_added: g(StatsType::KeysAdded),
            keys_deleted: g(StatsType::KeysDeleted),
            keys_updated: g(StatsType::KeysUpdated),
            keys_rejected: g(StatsType::KeysRejected),
            weight_added: g(StatsType::WeightAdded),
            weight_removed: g(StatsType::WeightRemoved),
            access_added: g(StatsType::AccessAdded),
            access_dropped: g(StatsType::AccessDropped),
            hit_ratio_ppm: (s.hit_ratio * 1_000_000.0).round() as u64,
        }
    }
}

/// Identity of an acknowledgement: (thread, op index) of the write that produced it.
/// `NOBODY` = an acknowledgement the harness never saw (e.g. the Shutdown command's own).
pub type AckId = (usize, usize);
pub const NOBODY: AckId = (usize::MAX, 0);

#[derive(Serialize, Deserialize, Clone, Debug, PartialEq, Eq, Hash)]
pub enum Res {
    /// a write call returned: Ok(ack) or Err (send error / shutting down)
    Write { ok: bool },
    /// the call panicked on a documented precondition before doing anything (a put_or_update
    /// without a value found the key absent): it had no effect
    Refused,
    Read { vals: Vec<Option<u64>>, complete: bool },
    Weight(i64),
    Stats(Stats),
    Tick { delivered: usize },
    Unit,
}

#[derive(Serialize, Deserialize, Clone, Debug, PartialEq, Eq, Hash)]
pub enum Hook {
    ApplyBegin { ack: AckId, kind: String, id: u64 },
    ApplyEnd { ack: AckId, st: St },
    Acked { ack: AckId },
    Drained { ack: AckId },
    AdmissionBegin { id: u64, hash: u64, weight: i64, max_weight: i64, space_left: i64, fits: bool },
    CreateSpace { id: u64, incoming: u8 },
    Victim { sample: Vec<(u64, i64, u8)>, victim: (u64, i64, u8), space: i64 },
    Evicted { id: u64 },
    SampleEmpty,
    BatchApplied { hashes: Vec<u64> },
    SweepBegin { now: Dur, shard: usize },
    SweepExpired { id: u64, expiry: Dur },
    SweepDone,
}

/// Snapshot of everything observable at a quiescent point.
#[derive(Serialize, Deserialize, Clone, Debug, PartialEq, Eq, Hash, Default)]
pub struct Obs {
    pub label: String,
    pub weight_used: i64,
    pub stats: Stats,
    /// (key, key id, expiry, soft deleted)
    pub store: Vec<(u32, u64, Option<Dur>, bool)>,
    /// (key id, key, hash, weight)
    pub weights: Vec<(u64, u32, u64, i64)>,
    /// (shard, key id, expiry)
    pub expiry_index: Vec<(usize, u64, Dur)>,
    pub buffered: Vec<Vec<u64>>,
    pub clock: Dur,
}

#[derive(Serialize, Deserialize, Clone, Debug, PartialEq, Eq, Hash)]
pub enum Item {
    Invoke { t: usize, i: usize, op: Op, clock: Dur },
    Return { t: usize, i: usize, res: Res, clock: Dur },
    /// the acknowledgement of write (t, i) was observed resolved (by `by`: a thread, or usize::MAX
    /// for the harness epilogue); `polls` = polls that returned Pending before it
    AckObserved { ack: AckId, by: usize, st: St, polls: u32 },
    /// manual poll (ACK family): result None = Poll::Pending
    Polled { ack: AckId, by: usize, waker: usize, res: Option<St> },
    /// non-blocking look at whether each kept acknowledgement has resolved (AwaitAll prologue),
    /// scanned from last to first
    Resolved { t: usize, acks: Vec<(AckId, bool)> },
    Woken { waker: usize },
    Hook { role: String, ev: Hook },
    /// final agreement reads: one key through one variant
    FinalRead { kind: ReadKind, key: u32, val: Option<u64> },
    Obs(Obs),
    Phase(String),
    /// total_weight_used() read by the caller the moment an awaited upsert with an explicit weight
    /// was acknowledged (single-caller scenarios only)
    WeightAfterAck { t: usize, i: usize, weight: i64 },
    /// epilogue probe (C07): a put of a key that read as absent at quiescence, and its status
    FinalPut { key: u32, st: St },
}

/// Raw item as logged during the run (acknowledgement identities still memory addresses).
pub enum RawHook {
    Ev(Event),
}

pub fn convert_hook(ev: &Event, resolve: &dyn Fn(usize) -> AckId) -> Hook {
    match ev {
        Event::ApplyBegin { ack, kind, id } => Hook::ApplyBegin { ack: resolve(*ack), kind: kind.clone(), id: *id },
        Event::ApplyEnd { ack, status } => Hook::ApplyEnd { ack: resolve(*ack), st: St::from(*status) },
        Event::Acked { ack } => Hook::Acked { ack: resolve(*ack) },
        Event::Drained { ack } => Hook::Drained { ack: resolve(*ack) },
        Event::AdmissionBegin { id, hash, weight, max_weight, space_left, fits } => Hook::AdmissionBegin {
            id: *id,
            hash: *hash,
            weight: *weight,
            max_weight: *max_weight,
            space_left: *space_left,
            fits: *fits,
        },
        Event::CreateSpace { id, incoming_estimate } => Hook::CreateSpace { id: *id, incoming: *incoming_estimate },
        Event::Victim { sample, victim, space_available } => {
            let mut s = sample.clone();
            s.sort();
            Hook::Victim { sample: s, victim: *victim, space: *space_available }
        }
        Event::Evicted { id } => Hook::Evicted { id: *id },
        Event::SampleEmpty => Hook::SampleEmpty,
        Event::BatchApplied { hashes } => Hook::BatchApplied { hashes: hashes.clone() },
        Event::SweepBegin { now, shard } => Hook::SweepBegin { now: dur_of(*now), shard: *shard },
        Event::SweepExpired { id, expiry } => Hook::SweepExpired { id: *id, expiry: dur_of(*expiry) },
        Event::SweepDone => Hook::SweepDone,
    }
}
