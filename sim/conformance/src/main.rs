//! conformance [sequences] [seed]: exit 0 if shims and real crates agree on every sequence.
use std::collections::BTreeMap;

struct Rng(u64);
impl Rng {
    fn next(&mut self) -> u64 {
        self.0 = self.0.wrapping_add(0x9E37_79B9_7F4A_7C15);
        let mut z = self.0;
        z = (z ^ (z >> 30)).wrapping_mul(0xBF58_476D_1CE4_E5B9);
        z = (z ^ (z >> 27)).wrapping_mul(0x94D0_49BB_1331_11EB);
        z ^ (z >> 31)
    }
    fn below(&mut self, n: u64) -> u64 {
        self.next() % n
    }
}

#[derive(Clone, Debug)]
enum MapOp {
    Insert(u8, u32),
    Remove(u8),
    Get(u8),
    GetMutAdd(u8, u32),
    Contains(u8),
    IterSorted,
    Len,
    Clear,
    /// read guard held while reading another key (recursive shared access on possibly one shard)
    GetWhileHolding(u8, u8),
    TryGet(u8),
    TryGetMutAdd(u8, u32),
    /// try_get_mut of b while a read guard on a is alive (Locked iff both live in one shard)
    TryGetMutWhileHolding(u8, u8),
    RemoveIfOdd(u8),
}

#[derive(Clone, Debug)]
enum ChanOp {
    TrySend(u32),
    TryRecv,
    Len,
    SelectSend(u32),
    CloneSenderAndDrop,
    DropSender,
    DropReceiver,
    SendIfRoom(u32),
    RecvIfAny,
}

fn gen_map_ops(rng: &mut Rng, n: usize) -> Vec<MapOp> {
    (0..n)
        .map(|_| {
            let k = rng.below(6) as u8;
            match rng.below(20) {
                0..=5 => MapOp::Insert(k, rng.below(1000) as u32),
                6..=8 => MapOp::Remove(k),
                9..=11 => MapOp::Get(k),
                12..=13 => MapOp::GetMutAdd(k, rng.below(10) as u32),
                14 => MapOp::Contains(k),
                15..=16 => MapOp::IterSorted,
                17 => MapOp::Len,
                18 => match rng.below(5) {
                    0 => MapOp::GetWhileHolding(k, rng.below(6) as u8),
                    1 => MapOp::TryGet(k),
                    2 => MapOp::TryGetMutAdd(k, rng.below(10) as u32),
                    3 => MapOp::TryGetMutWhileHolding(k, rng.below(6) as u8),
                    _ => MapOp::RemoveIfOdd(k),
                },
                _ => MapOp::Clear,
            }
        })
        .collect()
}

fn gen_chan_ops(rng: &mut Rng, n: usize) -> Vec<ChanOp> {
    (0..n)
        .map(|i| match rng.below(24) {
            0..=7 => ChanOp::TrySend(i as u32),
            8..=12 => ChanOp::TryRecv,
            13 => ChanOp::Len,
            14..=16 => ChanOp::SelectSend(i as u32),
            17 => ChanOp::CloneSenderAndDrop,
            18..=19 => ChanOp::SendIfRoom(i as u32),
            20..=21 => ChanOp::RecvIfAny,
            22 => ChanOp::DropSender,
            _ => ChanOp::DropReceiver,
        })
        .collect()
}

macro_rules! run_map {
    ($modname:ident, $ops:expr, $shards:expr) => {{
        let m: $modname::DashMap<u8, u32> = $modname::DashMap::with_capacity_and_shard_amount(16, $shards);
        let mut out: Vec<String> = vec![];
        for op in $ops {
            match op {
                MapOp::Insert(k, v) => out.push(format!("{:?}", m.insert(*k, *v))),
                MapOp::Remove(k) => out.push(format!("{:?}", m.remove(k))),
                MapOp::Get(k) => out.push(format!("{:?}", m.get(k).map(|r| (*r.key(), *r.value())))),
                MapOp::GetMutAdd(k, d) => {
                    let r = m.get_mut(k).map(|mut r| {
                        *r.value_mut() += *d;
                        *r
                    });
                    out.push(format!("{:?}", r));
                }
                MapOp::Contains(k) => out.push(format!("{}", m.contains_key(k))),
                MapOp::IterSorted => {
                    let mut v: Vec<(u8, u32)> = m.iter().map(|r| (*r.key(), *r.value())).collect();
                    v.sort();
                    out.push(format!("{:?}", v));
                }
                MapOp::Len => out.push(format!("{}", m.len())),
                MapOp::Clear => {
                    m.clear();
                    out.push("cleared".into());
                }
                MapOp::GetWhileHolding(a, b) => {
                    let g = m.get(a);
                    let other = m.get(b).map(|r| *r.value());
                    out.push(format!("{:?}/{:?}", g.map(|r| *r.value()), other));
                }
                MapOp::TryGet(k) => {
                    let r = m.try_get(k);
                    out.push(format!("{}/{}/{:?}", r.is_present(), r.is_locked(), r.try_unwrap().map(|x| *x.value())));
                }
                MapOp::TryGetMutAdd(k, d) => {
                    let r = m.try_get_mut(k);
                    let desc = format!("{}/{}", r.is_present(), r.is_absent());
                    let v = r.try_unwrap().map(|mut x| {
                        *x.value_mut() += *d;
                        *x
                    });
                    out.push(format!("{}/{:?}", desc, v));
                }
                MapOp::TryGetMutWhileHolding(a, b) => {
                    let g = m.get(a);
                    let r = m.try_get_mut(b);
                    // whether two keys share a shard depends on the (unspecified) hashing: only the
                    // outcomes that do not depend on it are compared
                    let same_key = a == b;
                    let desc = if g.is_some() && same_key { format!("locked={}", r.is_locked()) } else { "shard-dependent".to_string() };
                    drop(r);
                    out.push(format!("{:?}/{}", g.map(|x| *x.value()), desc));
                }
                MapOp::RemoveIfOdd(k) => out.push(format!("{:?}", m.remove_if(k, |_, v| v % 2 == 1))),
            }
        }
        out
    }};
}

macro_rules! run_chan {
    ($modname:ident, $ops:expr, $cap:expr) => {{
        let (s, r) = $modname::bounded::<u32>($cap);
        let mut sender = Some(s);
        let mut receiver = Some(r);
        let mut out: Vec<String> = vec![];
        for op in $ops {
            match op {
                ChanOp::TrySend(v) => {
                    if let Some(s) = &sender {
                        out.push(match s.try_send(*v) {
                            Ok(()) => "sent".to_string(),
                            Err($modname::TrySendError::Full(x)) => format!("full({})", x),
                            Err($modname::TrySendError::Disconnected(x)) => format!("disc({})", x),
                        });
                    }
                }
                ChanOp::SendIfRoom(v) => {
                    // blocking send, only issued when it cannot block (single-threaded sequence)
                    if let (Some(s), Some(_)) = (&sender, &receiver) {
                        if s.len() < $cap {
                            out.push(format!("{:?}", s.send(*v).is_ok()));
                        }
                    } else if let Some(s) = &sender {
                        out.push(format!("{:?}", s.send(*v).is_ok()));
                    }
                }
                ChanOp::TryRecv => {
                    if let Some(r) = &receiver {
                        out.push(match r.try_recv() {
                            Ok(x) => format!("got({})", x),
                            Err($modname::TryRecvError::Empty) => "empty".to_string(),
                            Err($modname::TryRecvError::Disconnected) => "disc".to_string(),
                        });
                    }
                }
                ChanOp::RecvIfAny => {
                    if let Some(r) = &receiver {
                        if r.len() > 0 || sender.is_none() {
                            out.push(format!("{:?}", r.recv().ok()));
                        }
                    }
                }
                ChanOp::Len => {
                    if let Some(r) = &receiver {
                        out.push(format!("len={}", r.len()));
                    }
                }
                ChanOp::SelectSend(v) => {
                    if let Some(s) = &sender {
                        let res: String;
                        $modname::select! {
                            send(s.clone(), *v) -> response => {
                                res = match response { Ok(_) => "sel-sent".to_string(), Err(_) => "sel-disc".to_string() };
                            },
                            default => {
                                res = "sel-default".to_string();
                            }
                        }
                        out.push(res);
                    }
                }
                ChanOp::CloneSenderAndDrop => {
                    if let Some(s) = &sender {
                        let c = s.clone();
                        drop(c);
                        out.push("cloned".into());
                    }
                }
                ChanOp::DropSender => {
                    sender = None;
                    out.push("sender-dropped".into());
                }
                ChanOp::DropReceiver => {
                    receiver = None;
                    out.push("receiver-dropped".into());
                }
            }
        }
        out
    }};
}

fn lock_and_hash_sequence_real(ops: &[MapOp]) -> Vec<String> {
    let m = real_parking_lot::Mutex::new(0u32);
    let rw = real_parking_lot::RwLock::new(real_hashbrown::HashMap::<u8, u32>::new());
    let mut out = vec![];
    for op in ops {
        match op {
            MapOp::Insert(k, v) => {
                *m.lock() += 1;
                out.push(format!("{:?}", rw.write().insert(*k, *v)));
            }
            MapOp::Remove(k) => out.push(format!("{:?}", rw.write().remove(k))),
            MapOp::Get(k) => out.push(format!("{:?}", rw.read().get(k).copied())),
            MapOp::Clear => rw.write().clear(),
            MapOp::Len => out.push(format!("{}", rw.read().len())),
            MapOp::IterSorted => {
                // retain with a predicate on the value; order of visits is unspecified, result is not
                let mut visited = vec![];
                rw.write().retain(|k, v| {
                    visited.push(*k);
                    *v % 3 != 0
                });
                visited.sort();
                out.push(format!("{:?}", visited));
            }
            _ => {}
        }
    }
    out.push(format!("mutex={}", *m.lock()));
    out
}

fn lock_and_hash_sequence_shim(ops: &[MapOp]) -> Vec<String> {
    let m = shim_parking_lot::Mutex::new(0u32);
    let rw = shim_parking_lot::RwLock::new(shim_hashbrown::HashMap::<u8, u32>::new());
    let mut out = vec![];
    for op in ops {
        match op {
            MapOp::Insert(k, v) => {
                *m.lock() += 1;
                out.push(format!("{:?}", rw.write().insert(*k, *v)));
            }
            MapOp::Remove(k) => out.push(format!("{:?}", rw.write().remove(k))),
            MapOp::Get(k) => out.push(format!("{:?}", rw.read().get(k).copied())),
            MapOp::Clear => rw.write().clear(),
            MapOp::Len => out.push(format!("{}", rw.read().len())),
            MapOp::IterSorted => {
                let mut visited = vec![];
                rw.write().retain(|k, v| {
                    visited.push(*k);
                    *v % 3 != 0
                });
                visited.sort();
                out.push(format!("{:?}", visited));
            }
            _ => {}
        }
    }
    out.push(format!("mutex={}", *m.lock()));
    out
}

fn main() {
    let args: Vec<String> = std::env::args().collect();
    let n: usize = args.get(1).and_then(|s| s.parse().ok()).unwrap_or(2000);
    let seed: u64 = args.get(2).and_then(|s| s.parse().ok()).unwrap_or(1);
    let mut rng = Rng(seed);
    let mut stats: BTreeMap<&'static str, u64> = BTreeMap::new();
    for i in 0..n {
        let map_ops = gen_map_ops(&mut rng, 40);
        let chan_ops = gen_chan_ops(&mut rng, 40);
        let shards = [2usize, 4, 8][(rng.below(3)) as usize];
        let cap = 1 + rng.below(4) as usize;

        let real_map = run_map!(real_dashmap, &map_ops, shards);
        let real_chan = run_chan!(real_channel, &chan_ops, cap);
        let real_locks = lock_and_hash_sequence_real(&map_ops);

        let (mo, co) = (map_ops.clone(), chan_ops.clone());
        let result = std::sync::Arc::new(std::sync::Mutex::new(None));
        let r2 = result.clone();
        shuttle::check_random(
            move || {
                simsync::sim::reset(12345, std::time::Duration::from_secs(1));
                let shim_map = run_map!(shim_dashmap, &mo, shards);
                let shim_chan = run_chan!(shim_channel, &co, cap);
                let shim_locks = lock_and_hash_sequence_shim(&mo);
                simsync::sim::finish();
                *r2.lock().unwrap() = Some((shim_map, shim_chan, shim_locks));
            },
            1,
        );
        let (shim_map, shim_chan, shim_locks) = result.lock().unwrap().take().expect("shim run");
        if real_map != shim_map {
            println!("MISMATCH dashmap sequence {}: ops {:?}\n real {:?}\n shim {:?}", i, map_ops, real_map, shim_map);
            std::process::exit(1);
        }
        if real_chan != shim_chan {
            println!("MISMATCH crossbeam-channel sequence {} (cap {}): ops {:?}\n real {:?}\n shim {:?}", i, cap, chan_ops, real_chan, shim_chan);
            std::process::exit(1);
        }
        if real_locks != shim_locks {
            println!("MISMATCH parking_lot/hashbrown sequence {}: real {:?}\n shim {:?}", i, real_locks, shim_locks);
            std::process::exit(1);
        }
        *stats.entry("map_results").or_insert(0) += real_map.len() as u64;
        *stats.entry("channel_results").or_insert(0) += real_chan.len() as u64;
        *stats.entry("lock_hash_results").or_insert(0) += real_locks.len() as u64;
    }
    println!("CONFORMANCE ok sequences={} seed={} compared={:?}", n, seed, stats);
}
