//! rand facade: `thread_rng()` draws from the simulator's PRNG (shuttle's scheduler `next_u64`),
//! so pool-buffer choice and sketch row seeds are a function of the run seed and replay exactly.
pub use shuttle::rand::{thread_rng, Rng, RngCore};
