//! Stand-in for hashbrown::HashMap (API subset used by tinylfu-cached).
//! Iteration / `retain` order is unspecified in the real crate (ahash RandomState); here it is a
//! function of the run's salt and the content, so that it varies across runs and replays exactly.
use simsync::SaltedState;
use std::collections::HashMap as StdMap;
use std::hash::Hash;

pub struct HashMap<K, V>(StdMap<K, V, SaltedState>);

impl<K: Hash + Eq, V> HashMap<K, V> {
    pub fn new() -> Self {
        HashMap(StdMap::with_hasher(SaltedState::from_run(0x68_6173_6862)))
    }
    pub fn insert(&mut self, k: K, v: V) -> Option<V> {
        self.0.insert(k, v)
    }
    pub fn remove(&mut self, k: &K) -> Option<V> {
        self.0.remove(k)
    }
    pub fn get(&self, k: &K) -> Option<&V> {
        self.0.get(k)
    }
    pub fn contains_key(&self, k: &K) -> bool {
        self.0.contains_key(k)
    }
    pub fn clear(&mut self) {
        self.0.clear()
    }
    pub fn len(&self) -> usize {
        self.0.len()
    }
    pub fn is_empty(&self) -> bool {
        self.0.is_empty()
    }
    pub fn retain<F: FnMut(&K, &mut V) -> bool>(&mut self, f: F) {
        self.0.retain(f)
    }
    pub fn iter(&self) -> std::collections::hash_map::Iter<'_, K, V> {
        self.0.iter()
    }
}

impl<K: Hash + Eq, V> Default for HashMap<K, V> {
    fn default() -> Self {
        Self::new()
    }
}
