//! Stand-in for hashbrown::HashMap / HashSet.
//! Iteration / `retain` order is unspecified in the real crate (ahash RandomState); here it is a
//! function of the run's salt and the content, so that it varies across runs and replays exactly.
//! Everything else is std's HashMap (hashbrown is what std uses underneath), reached through Deref.
use simsync::SaltedState;
use std::collections::{HashMap as StdMap, HashSet as StdSet};
use std::hash::Hash;
use std::ops::{Deref, DerefMut};

pub struct HashMap<K, V>(StdMap<K, V, SaltedState>);

impl<K: Hash + Eq, V> HashMap<K, V> {
    pub fn new() -> Self {
        HashMap(StdMap::with_hasher(SaltedState::from_run(0x68_6173_6862)))
    }
    pub fn with_capacity(n: usize) -> Self {
        HashMap(StdMap::with_capacity_and_hasher(n, SaltedState::from_run(0x68_6173_6862)))
    }
}
impl<K: Hash + Eq, V> Default for HashMap<K, V> {
    fn default() -> Self {
        Self::new()
    }
}
impl<K, V> Deref for HashMap<K, V> {
    type Target = StdMap<K, V, SaltedState>;
    fn deref(&self) -> &Self::Target {
        &self.0
    }
}
impl<K, V> DerefMut for HashMap<K, V> {
    fn deref_mut(&mut self) -> &mut Self::Target {
        &mut self.0
    }
}
impl<K: Hash + Eq, V> IntoIterator for HashMap<K, V> {
    type Item = (K, V);
    type IntoIter = std::collections::hash_map::IntoIter<K, V>;
    fn into_iter(self) -> Self::IntoIter {
        self.0.into_iter()
    }
}
impl<'a, K, V> IntoIterator for &'a HashMap<K, V> {
    type Item = (&'a K, &'a V);
    type IntoIter = std::collections::hash_map::Iter<'a, K, V>;
    fn into_iter(self) -> Self::IntoIter {
        self.0.iter()
    }
}
impl<K: Hash + Eq, V> FromIterator<(K, V)> for HashMap<K, V> {
    fn from_iter<I: IntoIterator<Item = (K, V)>>(iter: I) -> Self {
        let mut m = HashMap::new();
        m.0.extend(iter);
        m
    }
}
impl<K: std::fmt::Debug, V: std::fmt::Debug> std::fmt::Debug for HashMap<K, V> {
    fn fmt(&self, f: &mut std::fmt::Formatter<'_>) -> std::fmt::Result {
        self.0.fmt(f)
    }
}

pub struct HashSet<T>(StdSet<T, SaltedState>);
impl<T: Hash + Eq> HashSet<T> {
    pub fn new() -> Self {
        HashSet(StdSet::with_hasher(SaltedState::from_run(0x68_7365_7473)))
    }
}
impl<T: Hash + Eq> Default for HashSet<T> {
    fn default() -> Self {
        Self::new()
    }
}
impl<T> Deref for HashSet<T> {
    type Target = StdSet<T, SaltedState>;
    fn deref(&self) -> &Self::Target {
        &self.0
    }
}
impl<T> DerefMut for HashSet<T> {
    fn deref_mut(&mut self) -> &mut Self::Target {
        &mut self.0
    }
}
