//! simsync: simulator-owned blocking primitives (Mutex, RwLock on shuttle's BatchSemaphore) and
//! the per-execution simulator state (clock, salts, task roles, channel probes, reach probes).
//!
//! Everything here runs on the single OS thread that drives one shuttle execution, so plain
//! `thread_local!` cells are "globals of the current execution". Nothing in this crate reads a real
//! clock or a real source of randomness.
use shuttle_engine::future::batch_semaphore::{BatchSemaphore, Fairness};
use std::cell::UnsafeCell;
use std::ops::{Deref, DerefMut};

pub use shuttle_engine::future::batch_semaphore as sem;

const MAX_READS: usize = 1 << 20;

pub mod sim {
    use shuttle_engine::future::batch_semaphore::{BatchSemaphore, Fairness};
    use shuttle_engine::runtime::execution::ExecutionState;
    use std::cell::{Cell, RefCell};
    use std::collections::BTreeMap;
    use std::rc::Rc;
    use std::time::Duration;

    /// Which background party a task is; learnt from the message type of the channel it receives on.
    #[derive(Copy, Clone, Debug, PartialEq, Eq, PartialOrd, Ord, Hash)]
    pub enum Role {
        Worker,
        Sweeper,
        Consumer,
        Other,
    }

    impl Role {
        pub fn from_tag(tag: &str) -> Role {
            if tag.contains("CommandAcknowledgementPair") {
                Role::Worker
            } else if tag.contains("BufferEvent") {
                Role::Consumer
            } else if tag.contains("Instant") {
                Role::Sweeper
            } else {
                Role::Other
            }
        }
        pub fn name(self) -> &'static str {
            match self {
                Role::Worker => "worker",
                Role::Sweeper => "sweeper",
                Role::Consumer => "consumer",
                Role::Other => "other",
            }
        }
    }

    /// Non-generic part of a channel, registered so that the harness can ask "is the receiver idle".
    pub struct ChanCore {
        pub tag: &'static str,
        pub role: Role,
        pub cap: usize,
        pub queued: Cell<usize>,
        pub recv_waiting: Cell<usize>,
        pub sent: Cell<u64>,
        pub received: Cell<u64>,
        pub send_blocked: Cell<u64>,
        pub try_send_full: Cell<u64>,
        pub max_queued: Cell<usize>,
        /// the last receiver is gone (its thread ended): nothing will ever be received again
        pub rx_closed: Cell<bool>,
        idle_waiters: RefCell<Vec<Rc<BatchSemaphore>>>,
    }

    impl ChanCore {
        pub fn is_idle(&self) -> bool {
            self.rx_closed.get() || (self.queued.get() == 0 && self.recv_waiting.get() > 0)
        }
        /// Called when the last receiver is dropped.
        pub fn receiver_gone(&self, scheduling_point_allowed: bool) {
            self.rx_closed.set(true);
            let waiters: Vec<Rc<BatchSemaphore>> = std::mem::take(&mut *self.idle_waiters.borrow_mut());
            if scheduling_point_allowed {
                for w in waiters {
                    w.release(1);
                }
            }
        }
        /// Called by a receiver that found the queue empty and is about to block.
        pub fn receiver_about_to_block(&self) {
            let waiters: Vec<Rc<BatchSemaphore>> = std::mem::take(&mut *self.idle_waiters.borrow_mut());
            for w in waiters {
                w.release(1);
            }
        }
    }

    pub struct State {
        pub clock: Cell<Duration>,
        pub salt: Cell<u64>,
        pub roles: RefCell<BTreeMap<usize, Role>>,
        pub chans: RefCell<Vec<Rc<ChanCore>>>,
        pub probes: RefCell<BTreeMap<&'static str, u64>>,
        pub active: Cell<bool>,
    }

    thread_local! {
        static STATE: State = State {
            clock: Cell::new(Duration::from_secs(1_700_000_000)),
            salt: Cell::new(0),
            roles: RefCell::new(BTreeMap::new()),
            chans: RefCell::new(Vec::new()),
            probes: RefCell::new(BTreeMap::new()),
            active: Cell::new(false),
        };
    }

    /// Start of an execution: forget everything from the previous one.
    pub fn reset(salt: u64, clock: Duration) {
        STATE.with(|s| {
            s.clock.set(clock);
            s.salt.set(salt);
            s.roles.borrow_mut().clear();
            s.chans.borrow_mut().clear();
            s.probes.borrow_mut().clear();
            s.active.set(true);
        });
    }

    /// End of an execution (called inside it): drop registries so nothing is dropped outside.
    pub fn finish() {
        STATE.with(|s| {
            s.chans.borrow_mut().clear();
            s.roles.borrow_mut().clear();
            s.active.set(false);
        });
    }

    pub fn salt() -> u64 {
        STATE.with(|s| s.salt.get())
    }

    pub fn now() -> Duration {
        STATE.with(|s| s.clock.get())
    }

    pub fn set_now(d: Duration) {
        STATE.with(|s| s.clock.set(d));
    }

    pub fn probe(name: &'static str) {
        probe_add(name, 1);
    }

    pub fn probe_add(name: &'static str, n: u64) {
        STATE.with(|s| *s.probes.borrow_mut().entry(name).or_insert(0) += n);
    }

    pub fn probes() -> BTreeMap<&'static str, u64> {
        STATE.with(|s| s.probes.borrow().clone())
    }

    pub fn current_task() -> Option<usize> {
        ExecutionState::try_with(|st| st.try_current().map(|t| usize::from(t.id())))
            .ok()
            .flatten()
    }

    /// False once the execution engine's state is gone (after a failed run, or at process exit):
    /// shim objects dropped then must not touch the engine.
    pub fn in_execution() -> bool {
        use shuttle_engine::runtime::execution::ExecutionStateBorrowError;
        !matches!(ExecutionState::try_with(|_| ()), Err(ExecutionStateBorrowError::NotSet))
    }

    /// A plain scheduling point (the scheduler may switch to another task here).
    pub fn scheduling_point() {
        shuttle_engine::runtime::thread::switch();
    }

    pub fn note_role(role: Role) {
        if let Some(t) = current_task() {
            STATE.with(|s| {
                s.roles.borrow_mut().entry(t).or_insert(role);
            });
        }
    }

    pub fn role_of(task: usize) -> Option<Role> {
        STATE.with(|s| s.roles.borrow().get(&task).copied())
    }

    pub fn roles() -> BTreeMap<usize, Role> {
        STATE.with(|s| s.roles.borrow().clone())
    }

    pub fn register_chan(tag: &'static str, cap: usize) -> Rc<ChanCore> {
        let core = Rc::new(ChanCore {
            tag,
            role: Role::from_tag(tag),
            cap,
            queued: Cell::new(0),
            recv_waiting: Cell::new(0),
            sent: Cell::new(0),
            received: Cell::new(0),
            send_blocked: Cell::new(0),
            try_send_full: Cell::new(0),
            max_queued: Cell::new(0),
            rx_closed: Cell::new(false),
            idle_waiters: RefCell::new(Vec::new()),
        });
        STATE.with(|s| {
            if s.active.get() {
                s.chans.borrow_mut().push(core.clone());
            }
        });
        core
    }

    pub fn chan_of(role: Role) -> Option<Rc<ChanCore>> {
        STATE.with(|s| s.chans.borrow().iter().rev().find(|c| c.role == role).cloned())
    }

    pub fn chans() -> Vec<Rc<ChanCore>> {
        STATE.with(|s| s.chans.borrow().clone())
    }

    /// Block the calling task until the receiver of `role`'s channel is parked on an empty queue,
    /// i.e. everything sent so far has been received *and fully processed*.
    pub fn await_idle(role: Role) {
        let core = match chan_of(role) {
            Some(c) => c,
            None => return,
        };
        loop {
            if core.is_idle() {
                return;
            }
            let sem = Rc::new(BatchSemaphore::new(0, Fairness::Unfair));
            core.idle_waiters.borrow_mut().push(sem.clone());
            let _ = sem.acquire_blocking(1);
        }
    }

    pub fn is_idle(role: Role) -> bool {
        chan_of(role).map(|c| c.is_idle()).unwrap_or(true)
    }
}

/// Seed-salted hasher state: iteration order and shard choice are a function of (run salt, content).
#[derive(Clone, Copy, Debug)]
pub struct SaltedState(pub u64);

impl SaltedState {
    pub fn from_run(kind: u64) -> Self {
        SaltedState(sim::salt() ^ kind.wrapping_mul(0x9E37_79B9_7F4A_7C15))
    }
}

impl std::hash::BuildHasher for SaltedState {
    type Hasher = std::collections::hash_map::DefaultHasher;
    fn build_hasher(&self) -> Self::Hasher {
        use std::hash::Hasher;
        let mut h = std::collections::hash_map::DefaultHasher::new();
        h.write_u64(self.0);
        h
    }
}

pub struct RawRw {
    sem: BatchSemaphore,
}

impl RawRw {
    pub fn new(writer_preferring: bool) -> Self {
        RawRw {
            sem: BatchSemaphore::new(
                MAX_READS,
                if writer_preferring { Fairness::StrictlyFair } else { Fairness::Unfair },
            ),
        }
    }
    pub fn lock_shared(&self) {
        self.sem.acquire_blocking(1).expect("lock closed (a holder panicked)");
    }
    pub fn lock_exclusive(&self) {
        self.sem.acquire_blocking(MAX_READS).expect("lock closed (a holder panicked)");
    }
    pub fn try_lock_shared(&self) -> bool {
        self.sem.try_acquire(1).is_ok()
    }
    pub fn try_lock_exclusive(&self) -> bool {
        self.sem.try_acquire(MAX_READS).is_ok()
    }
    pub fn unlock_shared(&self) {
        self.sem.release(1);
    }
    pub fn unlock_exclusive(&self) {
        self.sem.release(MAX_READS);
    }
}

pub struct RwLock<T> {
    raw: RawRw,
    data: UnsafeCell<T>,
}
unsafe impl<T: Send> Send for RwLock<T> {}
unsafe impl<T: Send + Sync> Sync for RwLock<T> {}

impl<T> RwLock<T> {
    pub fn new(value: T, writer_preferring: bool) -> Self {
        RwLock { raw: RawRw::new(writer_preferring), data: UnsafeCell::new(value) }
    }
    pub fn read(&self) -> RwLockReadGuard<'_, T> {
        self.raw.lock_shared();
        RwLockReadGuard { lock: self }
    }
    pub fn write(&self) -> RwLockWriteGuard<'_, T> {
        self.raw.lock_exclusive();
        RwLockWriteGuard { lock: self }
    }
    pub fn try_read(&self) -> Option<RwLockReadGuard<'_, T>> {
        if self.raw.try_lock_shared() {
            Some(RwLockReadGuard { lock: self })
        } else {
            None
        }
    }
    pub fn try_write(&self) -> Option<RwLockWriteGuard<'_, T>> {
        if self.raw.try_lock_exclusive() {
            Some(RwLockWriteGuard { lock: self })
        } else {
            None
        }
    }
    pub fn get_mut(&mut self) -> &mut T {
        self.data.get_mut()
    }
    pub fn into_inner(self) -> T {
        self.data.into_inner()
    }
    /// Harness-only: look at the data without touching the lock (no scheduling point). Only
    /// sound when the caller knows no writer is active (quiescent points of a cooperative run).
    pub unsafe fn peek(&self) -> &T {
        &*self.data.get()
    }
}

pub struct RwLockReadGuard<'a, T> {
    lock: &'a RwLock<T>,
}
pub struct RwLockWriteGuard<'a, T> {
    lock: &'a RwLock<T>,
}
impl<T> Deref for RwLockReadGuard<'_, T> {
    type Target = T;
    fn deref(&self) -> &T {
        unsafe { &*self.lock.data.get() }
    }
}
impl<T> Deref for RwLockWriteGuard<'_, T> {
    type Target = T;
    fn deref(&self) -> &T {
        unsafe { &*self.lock.data.get() }
    }
}
impl<T> DerefMut for RwLockWriteGuard<'_, T> {
    fn deref_mut(&mut self) -> &mut T {
        unsafe { &mut *self.lock.data.get() }
    }
}
impl<T> Drop for RwLockReadGuard<'_, T> {
    fn drop(&mut self) {
        self.lock.raw.unlock_shared();
    }
}
impl<T> Drop for RwLockWriteGuard<'_, T> {
    fn drop(&mut self) {
        self.lock.raw.unlock_exclusive();
    }
}

pub struct Mutex<T> {
    sem: BatchSemaphore,
    data: UnsafeCell<T>,
}
unsafe impl<T: Send> Send for Mutex<T> {}
unsafe impl<T: Send> Sync for Mutex<T> {}

impl<T> Mutex<T> {
    pub fn new(value: T) -> Self {
        Mutex { sem: BatchSemaphore::new(1, Fairness::Unfair), data: UnsafeCell::new(value) }
    }
    pub fn lock(&self) -> MutexGuard<'_, T> {
        self.sem.acquire_blocking(1).expect("mutex closed (a holder panicked)");
        MutexGuard { lock: self }
    }
    pub fn get_mut(&mut self) -> &mut T {
        self.data.get_mut()
    }
    pub fn into_inner(self) -> T {
        self.data.into_inner()
    }
    pub fn try_lock(&self) -> Option<MutexGuard<'_, T>> {
        if self.sem.try_acquire(1).is_ok() {
            Some(MutexGuard { lock: self })
        } else {
            None
        }
    }
}
pub struct MutexGuard<'a, T> {
    lock: &'a Mutex<T>,
}
impl<T> Deref for MutexGuard<'_, T> {
    type Target = T;
    fn deref(&self) -> &T {
        unsafe { &*self.lock.data.get() }
    }
}
impl<T> DerefMut for MutexGuard<'_, T> {
    fn deref_mut(&mut self) -> &mut T {
        unsafe { &mut *self.lock.data.get() }
    }
}
impl<T> Drop for MutexGuard<'_, T> {
    fn drop(&mut self) {
        self.lock.sem.release(1);
    }
}
