//! Deterministic getrandom ([patch.crates-io]): bytes come from a per-OS-thread splitmix64 stream
//! that the simulator reseeds at the start of every execution (doorkeeper sip keys).
use std::cell::Cell;

#[derive(Debug, Clone, Copy, PartialEq, Eq)]
pub struct Error(core::num::NonZeroU32);
impl core::fmt::Display for Error {
    fn fmt(&self, f: &mut core::fmt::Formatter<'_>) -> core::fmt::Result {
        write!(f, "getrandom shim error")
    }
}
impl std::error::Error for Error {}
impl From<Error> for std::io::Error {
    fn from(_: Error) -> Self {
        std::io::Error::new(std::io::ErrorKind::Other, "getrandom shim")
    }
}
impl Error {
    pub const fn code(self) -> core::num::NonZeroU32 {
        self.0
    }
    pub fn raw_os_error(self) -> Option<i32> {
        None
    }
}

thread_local! { static STATE: Cell<u64> = Cell::new(0x9E37_79B9_7F4A_7C15); }

pub fn sim_reseed(seed: u64) {
    STATE.with(|s| s.set(seed));
}

fn next() -> u64 {
    STATE.with(|s| {
        let mut z = s.get().wrapping_add(0x9E37_79B9_7F4A_7C15);
        s.set(z);
        z = (z ^ (z >> 30)).wrapping_mul(0xBF58_476D_1CE4_E5B9);
        z = (z ^ (z >> 27)).wrapping_mul(0x94D0_49BB_1331_11EB);
        z ^ (z >> 31)
    })
}

pub fn getrandom(dest: &mut [u8]) -> Result<(), Error> {
    for c in dest.chunks_mut(8) {
        let b = next().to_le_bytes();
        c.copy_from_slice(&b[..c.len()]);
    }
    Ok(())
}
