//! Stand-in for dashmap 5.4.0 (API subset used by tinylfu-cached) on simulator-owned shard locks.
//!
//! Faithful to the real crate in what the properties depend on:
//!  * one RW lock per shard; every `Ref` / `RefMut` / `RefMulti` keeps its shard locked while alive,
//!    the iterator holds the read lock of the shard it is currently walking;
//!  * the shard lock is *reader-preferring* (dashmap-5.4.0/src/lock.rs: `lock_shared` succeeds
//!    whenever no writer *holds* the lock, a parked writer does not stop new readers), hence an
//!    unfair semaphore: recursive reads do not deadlock, read-then-write on one shard does;
//!  * shard choice and in-shard iteration order are random per process in reality (RandomState);
//!    here they are a function of the run's salt and the content.
use simsync::{RwLock, RwLockReadGuard, RwLockWriteGuard, SaltedState};
use std::collections::HashMap;
use std::hash::{BuildHasher, Hash, Hasher};
use std::sync::Arc;

type Shard<K, V> = HashMap<K, V, SaltedState>;

pub struct DashMap<K, V> {
    shards: Box<[RwLock<Shard<K, V>>]>,
    hasher: SaltedState,
}

impl<K: Eq + Hash, V> DashMap<K, V> {
    pub fn with_capacity_and_shard_amount(_capacity: usize, shard_amount: usize) -> Self {
        assert!(shard_amount > 1);
        assert!(shard_amount.is_power_of_two());
        let hasher = SaltedState::from_run(0x64_6173_686d);
        DashMap {
            shards: (0..shard_amount).map(|_| RwLock::new(Shard::with_hasher(hasher), false)).collect(),
            hasher,
        }
    }

    pub fn with_shard_amount(shard_amount: usize) -> Self {
        Self::with_capacity_and_shard_amount(0, shard_amount)
    }

    pub fn new() -> Self {
        Self::with_capacity_and_shard_amount(0, 4)
    }

    fn idx(&self, k: &K) -> usize {
        let mut h = self.hasher.build_hasher();
        k.hash(&mut h);
        // dashmap uses the high bits of the hash; any fixed function of the hash will do
        ((h.finish() >> 7) as usize) % self.shards.len()
    }

    pub fn insert(&self, k: K, v: V) -> Option<V> {
        let i = self.idx(&k);
        self.shards[i].write().insert(k, v)
    }

    pub fn remove(&self, k: &K) -> Option<(K, V)> {
        let i = self.idx(k);
        self.shards[i].write().remove_entry(k)
    }

    pub fn contains_key(&self, k: &K) -> bool {
        let i = self.idx(k);
        self.shards[i].read().contains_key(k)
    }

    pub fn clear(&self) {
        for s in self.shards.iter() {
            s.write().clear();
        }
    }

    pub fn len(&self) -> usize {
        self.shards.iter().map(|s| s.read().len()).sum()
    }

    pub fn is_empty(&self) -> bool {
        self.len() == 0
    }

    pub fn retain(&self, mut f: impl FnMut(&K, &mut V) -> bool) {
        for s in self.shards.iter() {
            s.write().retain(|k, v| f(k, v));
        }
    }

    pub fn get<'a>(&'a self, k: &K) -> Option<mapref::one::Ref<'a, K, V>> {
        let i = self.idx(k);
        let g = self.shards[i].read();
        let (kp, vp) = match g.get_key_value(k) {
            Some((k, v)) => (k as *const K, v as *const V),
            None => return None,
        };
        Some(mapref::one::Ref { _g: g, k: kp, v: vp })
    }

    pub fn get_mut<'a>(&'a self, k: &K) -> Option<mapref::one::RefMut<'a, K, V>> {
        let i = self.idx(k);
        let mut g = self.shards[i].write();
        let (kp, vp) = match g.get_key_value(k) {
            Some((k, v)) => (k as *const K, v as *const V as *mut V),
            None => return None,
        };
        let _ = &mut g;
        Some(mapref::one::RefMut { _g: g, k: kp, v: vp })
    }

    pub fn try_get<'a>(&'a self, k: &K) -> try_result::TryResult<mapref::one::Ref<'a, K, V>> {
        let i = self.idx(k);
        let g = match self.shards[i].try_read() {
            Some(g) => g,
            None => return try_result::TryResult::Locked,
        };
        let (kp, vp) = match g.get_key_value(k) {
            Some((k, v)) => (k as *const K, v as *const V),
            None => return try_result::TryResult::Absent,
        };
        try_result::TryResult::Present(mapref::one::Ref { _g: g, k: kp, v: vp })
    }

    pub fn try_get_mut<'a>(&'a self, k: &K) -> try_result::TryResult<mapref::one::RefMut<'a, K, V>> {
        let i = self.idx(k);
        let g = match self.shards[i].try_write() {
            Some(g) => g,
            None => return try_result::TryResult::Locked,
        };
        let (kp, vp) = match g.get_key_value(k) {
            Some((k, v)) => (k as *const K, v as *const V as *mut V),
            None => return try_result::TryResult::Absent,
        };
        try_result::TryResult::Present(mapref::one::RefMut { _g: g, k: kp, v: vp })
    }

    pub fn remove_if(&self, k: &K, f: impl FnOnce(&K, &V) -> bool) -> Option<(K, V)> {
        let i = self.idx(k);
        let mut g = self.shards[i].write();
        let keep = match g.get_key_value(k) {
            Some((kk, v)) => !f(kk, v),
            None => return None,
        };
        if keep {
            None
        } else {
            g.remove_entry(k)
        }
    }

    pub fn alter(&self, k: &K, f: impl FnOnce(&K, V) -> V)
    where
        K: Clone,
    {
        let i = self.idx(k);
        let mut g = self.shards[i].write();
        if let Some((kk, v)) = g.remove_entry(k) {
            let nv = f(&kk, v);
            g.insert(kk, nv);
        }
    }

    pub fn entry<'a>(&'a self, k: K) -> mapref::entry::Entry<'a, K, V> {
        let i = self.idx(&k);
        let g = self.shards[i].write();
        mapref::entry::Entry { g, key: k }
    }

    pub fn iter(&self) -> iter::Iter<'_, K, V> {
        iter::Iter { map: self, shard: 0, cur: None }
    }
}

impl<K: Eq + Hash, V> Default for DashMap<K, V> {
    fn default() -> Self {
        Self::new()
    }
}

pub mod try_result {
    /// Result of the non-blocking lookups (`try_get`, `try_get_mut`).
    #[derive(Debug)]
    pub enum TryResult<R> {
        Present(R),
        Absent,
        Locked,
    }
    impl<R> TryResult<R> {
        pub fn is_present(&self) -> bool {
            matches!(self, TryResult::Present(_))
        }
        pub fn is_absent(&self) -> bool {
            matches!(self, TryResult::Absent)
        }
        pub fn is_locked(&self) -> bool {
            matches!(self, TryResult::Locked)
        }
        pub fn unwrap(self) -> R {
            match self {
                TryResult::Present(r) => r,
                TryResult::Locked => panic!("Called unwrap() on TryResult::Locked"),
                TryResult::Absent => panic!("Called unwrap() on TryResult::Absent"),
            }
        }
        pub fn try_unwrap(self) -> Option<R> {
            match self {
                TryResult::Present(r) => Some(r),
                _ => None,
            }
        }
    }
}

pub mod mapref {
    pub mod one {
        use super::super::*;
        pub struct Ref<'a, K, V> {
            pub(crate) _g: RwLockReadGuard<'a, Shard<K, V>>,
            pub(crate) k: *const K,
            pub(crate) v: *const V,
        }
        impl<'a, K, V> Ref<'a, K, V> {
            pub fn key(&self) -> &K {
                unsafe { &*self.k }
            }
            pub fn value(&self) -> &V {
                unsafe { &*self.v }
            }
            pub fn pair(&self) -> (&K, &V) {
                (self.key(), self.value())
            }
        }
        impl<'a, K, V> std::ops::Deref for Ref<'a, K, V> {
            type Target = V;
            fn deref(&self) -> &V {
                self.value()
            }
        }
        pub struct RefMut<'a, K, V> {
            pub(crate) _g: RwLockWriteGuard<'a, Shard<K, V>>,
            pub(crate) k: *const K,
            pub(crate) v: *mut V,
        }
        impl<'a, K, V> RefMut<'a, K, V> {
            pub fn key(&self) -> &K {
                unsafe { &*self.k }
            }
            pub fn value(&self) -> &V {
                unsafe { &*self.v }
            }
            pub fn value_mut(&mut self) -> &mut V {
                unsafe { &mut *self.v }
            }
        }
        impl<'a, K, V> std::ops::Deref for RefMut<'a, K, V> {
            type Target = V;
            fn deref(&self) -> &V {
                self.value()
            }
        }
        impl<'a, K, V> std::ops::DerefMut for RefMut<'a, K, V> {
            fn deref_mut(&mut self) -> &mut V {
                self.value_mut()
            }
        }
    }
    pub mod entry {
        use super::super::*;
        use std::hash::Hash;
        /// The entry API (subset): the shard stays write-locked while the entry is alive.
        pub struct Entry<'a, K, V> {
            pub(crate) g: RwLockWriteGuard<'a, Shard<K, V>>,
            pub(crate) key: K,
        }
        impl<'a, K: Eq + Hash, V> Entry<'a, K, V> {
            /// insert-or-keep through std's entry API (the key is moved, never cloned); the key's
            /// address inside the table is then found by the value's address (shards are tiny here)
            fn settle(self, make: impl FnOnce() -> V, overwrite: bool) -> super::one::RefMut<'a, K, V> {
                let Entry { mut g, key } = self;
                let vp: *mut V = {
                    let mut make = Some(make);
                    let slot = match g.entry(key) {
                        std::collections::hash_map::Entry::Occupied(o) => {
                            let r = o.into_mut();
                            if overwrite {
                                *r = (make.take().unwrap())();
                            }
                            r
                        }
                        std::collections::hash_map::Entry::Vacant(v) => v.insert((make.take().unwrap())()),
                    };
                    slot as *mut V
                };
                let kp: *const K = g.iter().find(|(_, v)| std::ptr::eq(*v as *const V, vp as *const V)).map(|(k, _)| k as *const K).unwrap();
                super::one::RefMut { _g: g, k: kp, v: vp }
            }
            pub fn and_modify(mut self, f: impl FnOnce(&mut V)) -> Self {
                if let Some(v) = self.g.get_mut(&self.key) {
                    f(v);
                }
                self
            }
            pub fn or_insert_with(self, f: impl FnOnce() -> V) -> super::one::RefMut<'a, K, V> {
                self.settle(f, false)
            }
            pub fn or_insert(self, v: V) -> super::one::RefMut<'a, K, V> {
                self.or_insert_with(|| v)
            }
            pub fn or_default(self) -> super::one::RefMut<'a, K, V>
            where
                V: Default,
            {
                self.or_insert_with(V::default)
            }
            pub fn insert(self, v: V) -> super::one::RefMut<'a, K, V> {
                self.settle(|| v, true)
            }
            pub fn key(&self) -> &K {
                &self.key
            }
        }
    }
    pub mod multiple {
        use super::super::*;
        pub struct RefMulti<'a, K, V> {
            pub(crate) _g: Arc<RwLockReadGuard<'a, Shard<K, V>>>,
            pub(crate) k: *const K,
            pub(crate) v: *const V,
        }
        impl<'a, K, V> RefMulti<'a, K, V> {
            pub fn key(&self) -> &K {
                unsafe { &*self.k }
            }
            pub fn value(&self) -> &V {
                unsafe { &*self.v }
            }
            pub fn pair(&self) -> (&K, &V) {
                (self.key(), self.value())
            }
        }
        impl<'a, K, V> std::ops::Deref for RefMulti<'a, K, V> {
            type Target = V;
            fn deref(&self) -> &V {
                self.value()
            }
        }
    }
}

pub mod iter {
    use super::*;
    type Cursor<'a, K, V> = (Arc<RwLockReadGuard<'a, Shard<K, V>>>, std::vec::IntoIter<(*const K, *const V)>);
    pub struct Iter<'a, K, V> {
        pub(crate) map: &'a DashMap<K, V>,
        pub(crate) shard: usize,
        pub(crate) cur: Option<Cursor<'a, K, V>>,
    }
    impl<'a, K: Eq + Hash, V> Iterator for Iter<'a, K, V> {
        type Item = mapref::multiple::RefMulti<'a, K, V>;
        fn next(&mut self) -> Option<Self::Item> {
            loop {
                if let Some((g, it)) = self.cur.as_mut() {
                    if let Some((k, v)) = it.next() {
                        return Some(mapref::multiple::RefMulti { _g: g.clone(), k, v });
                    }
                }
                // leaving a shard: drop our hold on its guard *before* locking the next one
                self.cur = None;
                if self.shard >= self.map.shards.len() {
                    return None;
                }
                let g = self.map.shards[self.shard].read();
                self.shard += 1;
                let items: Vec<(*const K, *const V)> =
                    g.iter().map(|(k, v)| (k as *const K, v as *const V)).collect();
                self.cur = Some((Arc::new(g), items.into_iter()));
            }
        }
    }
}
