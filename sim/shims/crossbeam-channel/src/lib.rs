//! Stand-in for crossbeam-channel 0.5.7 (API subset used by tinylfu-cached): bounded MPMC FIFO
//! channel on simulator-owned semaphores, `select!` in the send-or-default form, and `tick`.
//!
//! Faithful to the real crate in what the properties depend on: FIFO order, `send` blocks while the
//! channel is full, `try_send`/`select!{send, default}` never block, a receiver drains queued
//! messages after the last sender is gone and only then sees `Err`, a sender sees `Err` once the
//! last receiver is gone. `tick` channels hold at most one pending message (missed ticks coalesce);
//! *when* a tick is delivered is decided by the simulator (`sim::fire_ticks`), not by real time.
use simsync::sem::{BatchSemaphore, Fairness, TryAcquireError};
use simsync::sim::{self, ChanCore};
use std::cell::RefCell;
use std::collections::VecDeque;
use std::rc::Rc;
use std::sync::atomic::{AtomicUsize, Ordering};
use std::sync::{Arc, Mutex as StdMutex};
use std::time::{Duration, Instant};

struct Chan<T> {
    queue: StdMutex<VecDeque<T>>, // never held across a scheduling point
    items: BatchSemaphore,        // permits = queued messages
    slots: BatchSemaphore,        // permits = free capacity
    senders: AtomicUsize,
    receivers: AtomicUsize,
    core: CoreHandle,
}

/// `Rc<ChanCore>` lives on the simulation's OS thread only; channels are never touched from
/// another OS thread (shuttle runs every task of an execution on one thread).
struct CoreHandle(Rc<ChanCore>);
unsafe impl Send for CoreHandle {}
unsafe impl Sync for CoreHandle {}

pub struct Sender<T> {
    chan: Arc<Chan<T>>,
}
pub struct Receiver<T> {
    chan: Arc<Chan<T>>,
}

#[derive(PartialEq, Eq, Clone, Copy)]
pub struct SendError<T>(pub T);
#[derive(PartialEq, Eq, Clone, Copy, Debug)]
pub struct RecvError;
#[derive(PartialEq, Eq, Clone, Copy)]
pub enum TrySendError<T> {
    Full(T),
    Disconnected(T),
}
#[derive(PartialEq, Eq, Clone, Copy, Debug)]
pub enum TryRecvError {
    Empty,
    Disconnected,
}

impl<T> std::fmt::Debug for SendError<T> {
    fn fmt(&self, f: &mut std::fmt::Formatter<'_>) -> std::fmt::Result {
        "SendError(..)".fmt(f)
    }
}
impl<T> std::fmt::Display for SendError<T> {
    fn fmt(&self, f: &mut std::fmt::Formatter<'_>) -> std::fmt::Result {
        "sending on a disconnected channel".fmt(f)
    }
}
impl<T> std::fmt::Debug for TrySendError<T> {
    fn fmt(&self, f: &mut std::fmt::Formatter<'_>) -> std::fmt::Result {
        match self {
            TrySendError::Full(..) => "Full(..)".fmt(f),
            TrySendError::Disconnected(..) => "Disconnected(..)".fmt(f),
        }
    }
}
impl std::fmt::Display for RecvError {
    fn fmt(&self, f: &mut std::fmt::Formatter<'_>) -> std::fmt::Result {
        "receiving on an empty and disconnected channel".fmt(f)
    }
}
impl<T> SendError<T> {
    pub fn into_inner(self) -> T {
        self.0
    }
}
impl<T> TrySendError<T> {
    pub fn into_inner(self) -> T {
        match self {
            TrySendError::Full(v) => v,
            TrySendError::Disconnected(v) => v,
        }
    }
    pub fn is_full(&self) -> bool {
        matches!(self, TrySendError::Full(_))
    }
    pub fn is_disconnected(&self) -> bool {
        matches!(self, TrySendError::Disconnected(_))
    }
}
impl<T> std::fmt::Display for TrySendError<T> {
    fn fmt(&self, f: &mut std::fmt::Formatter<'_>) -> std::fmt::Result {
        match self {
            TrySendError::Full(..) => "sending on a full channel".fmt(f),
            TrySendError::Disconnected(..) => "sending on a disconnected channel".fmt(f),
        }
    }
}
impl TryRecvError {
    pub fn is_empty(&self) -> bool {
        matches!(self, TryRecvError::Empty)
    }
    pub fn is_disconnected(&self) -> bool {
        matches!(self, TryRecvError::Disconnected)
    }
}
impl std::fmt::Display for TryRecvError {
    fn fmt(&self, f: &mut std::fmt::Formatter<'_>) -> std::fmt::Result {
        match self {
            TryRecvError::Empty => "receiving on an empty channel".fmt(f),
            TryRecvError::Disconnected => "receiving on an empty and disconnected channel".fmt(f),
        }
    }
}
impl<T> std::error::Error for SendError<T> {}
impl<T> std::error::Error for TrySendError<T> {}
impl std::error::Error for RecvError {}
impl std::error::Error for TryRecvError {}

fn shuttle_yield() {
    if sim::in_execution() && !std::thread::panicking() {
        simsync::sim::scheduling_point();
    }
}

/// An "unbounded" channel: a bounded one whose capacity is never reached.
pub fn unbounded<T>() -> (Sender<T>, Receiver<T>) {
    bounded(1 << 30)
}

#[derive(PartialEq, Eq, Clone, Copy, Debug)]
pub enum RecvTimeoutError {
    Timeout,
    Disconnected,
}
#[derive(PartialEq, Eq, Clone, Copy)]
pub enum SendTimeoutError<T> {
    Timeout(T),
    Disconnected(T),
}
impl<T> std::fmt::Debug for SendTimeoutError<T> {
    fn fmt(&self, f: &mut std::fmt::Formatter<'_>) -> std::fmt::Result {
        match self {
            SendTimeoutError::Timeout(..) => "Timeout(..)".fmt(f),
            SendTimeoutError::Disconnected(..) => "Disconnected(..)".fmt(f),
        }
    }
}

pub fn bounded<T>(cap: usize) -> (Sender<T>, Receiver<T>) {
    assert!(cap > 0, "zero-capacity (rendezvous) channels are not modelled");
    let core = sim::register_chan(std::any::type_name::<T>(), cap);
    let chan = Arc::new(Chan {
        queue: StdMutex::new(VecDeque::new()),
        items: BatchSemaphore::new(0, Fairness::StrictlyFair),
        slots: BatchSemaphore::new(cap, Fairness::StrictlyFair),
        senders: AtomicUsize::new(1),
        receivers: AtomicUsize::new(1),
        core: CoreHandle(core),
    });
    (Sender { chan: chan.clone() }, Receiver { chan })
}

impl<T> Chan<T> {
    fn push(&self, msg: T) {
        self.queue.lock().unwrap().push_back(msg);
        let c = &self.core.0;
        c.queued.set(c.queued.get() + 1);
        c.sent.set(c.sent.get() + 1);
        if c.queued.get() > c.max_queued.get() {
            c.max_queued.set(c.queued.get());
        }
        self.items.release(1);
    }
    fn pop(&self, release_slot: bool) -> Option<T> {
        let m = self.queue.lock().unwrap().pop_front();
        if m.is_some() {
            let c = &self.core.0;
            c.queued.set(c.queued.get() - 1);
            c.received.set(c.received.get() + 1);
            if release_slot {
                self.slots.release(1);
            }
        }
        m
    }
}

impl<T> Sender<T> {
    pub fn send(&self, msg: T) -> Result<(), SendError<T>> {
        if self.chan.slots.available_permits() == 0 && !self.chan.slots.is_closed() {
            let c = &self.chan.core.0;
            c.send_blocked.set(c.send_blocked.get() + 1);
        }
        match self.chan.slots.acquire_blocking(1) {
            Ok(()) => {
                self.chan.push(msg);
                Ok(())
            }
            Err(_) => Err(SendError(msg)),
        }
    }
    pub fn try_send(&self, msg: T) -> Result<(), TrySendError<T>> {
        match self.chan.slots.try_acquire(1) {
            Ok(()) => {
                self.chan.push(msg);
                Ok(())
            }
            Err(TryAcquireError::Closed) => Err(TrySendError::Disconnected(msg)),
            Err(TryAcquireError::NoPermits) => {
                let c = &self.chan.core.0;
                c.try_send_full.set(c.try_send_full.get() + 1);
                Err(TrySendError::Full(msg))
            }
        }
    }
    /// Real time does not exist in the simulation: a timed send is one attempt after a scheduling
    /// point (the timeout "expires" whenever the scheduler says so).
    pub fn send_timeout(&self, msg: T, _d: Duration) -> Result<(), SendTimeoutError<T>> {
        shuttle_yield();
        match self.try_send(msg) {
            Ok(()) => Ok(()),
            Err(TrySendError::Full(m)) => Err(SendTimeoutError::Timeout(m)),
            Err(TrySendError::Disconnected(m)) => Err(SendTimeoutError::Disconnected(m)),
        }
    }
    pub fn len(&self) -> usize {
        self.chan.core.0.queued.get()
    }
    pub fn is_empty(&self) -> bool {
        self.len() == 0
    }
    pub fn is_full(&self) -> bool {
        // a look at shared state: a scheduling point, like every other channel operation
        shuttle_yield();
        self.len() >= self.chan.core.0.cap
    }
    pub fn capacity(&self) -> Option<usize> {
        Some(self.chan.core.0.cap)
    }
}
impl<T> Clone for Sender<T> {
    fn clone(&self) -> Self {
        self.chan.senders.fetch_add(1, Ordering::SeqCst);
        Sender { chan: self.chan.clone() }
    }
}
impl<T> Drop for Sender<T> {
    fn drop(&mut self) {
        if self.chan.senders.fetch_sub(1, Ordering::SeqCst) == 1 {
            if !sim::in_execution() {
                return; // engine gone (failed run / process exit): nobody to wake
            }
            // last sender gone: receivers drain what is queued, then see Err
            if sim::current_task().is_some() && !std::thread::panicking() {
                self.chan.items.close();
            } else {
                self.chan.items.close_no_scheduling_point();
            }
        }
    }
}

impl<T> Receiver<T> {
    pub fn recv(&self) -> Result<T, RecvError> {
        let core = &self.chan.core.0;
        sim::note_role(core.role);
        match self.chan.items.try_acquire(1) {
            Ok(()) => return Ok(self.chan.pop(true).expect("permit without message")),
            Err(TryAcquireError::Closed) => return self.chan.pop(false).ok_or(RecvError),
            Err(TryAcquireError::NoPermits) => {}
        }
        // nothing queued: we are about to park; tell whoever waits for "receiver idle"
        core.recv_waiting.set(core.recv_waiting.get() + 1);
        core.receiver_about_to_block();
        let r = self.chan.items.acquire_blocking(1);
        core.recv_waiting.set(core.recv_waiting.get() - 1);
        match r {
            Ok(()) => Ok(self.chan.pop(true).expect("permit without message")),
            Err(_) => self.chan.pop(false).ok_or(RecvError),
        }
    }
    pub fn try_recv(&self) -> Result<T, TryRecvError> {
        sim::note_role(self.chan.core.0.role);
        match self.chan.items.try_acquire(1) {
            Ok(()) => Ok(self.chan.pop(true).expect("permit without message")),
            Err(TryAcquireError::NoPermits) => Err(TryRecvError::Empty),
            Err(TryAcquireError::Closed) => self.chan.pop(false).ok_or(TryRecvError::Disconnected),
        }
    }
    pub fn recv_timeout(&self, _d: Duration) -> Result<T, RecvTimeoutError> {
        shuttle_yield();
        match self.try_recv() {
            Ok(v) => Ok(v),
            Err(TryRecvError::Empty) => Err(RecvTimeoutError::Timeout),
            Err(TryRecvError::Disconnected) => Err(RecvTimeoutError::Disconnected),
        }
    }
    pub fn iter(&self) -> Iter<'_, T> {
        Iter { r: self }
    }
    pub fn try_iter(&self) -> TryIter<'_, T> {
        TryIter { r: self }
    }
    pub fn len(&self) -> usize {
        self.chan.core.0.queued.get()
    }
    pub fn is_empty(&self) -> bool {
        self.len() == 0
    }
    pub fn is_full(&self) -> bool {
        shuttle_yield();
        self.len() >= self.chan.core.0.cap
    }
    pub fn capacity(&self) -> Option<usize> {
        Some(self.chan.core.0.cap)
    }
}
impl<T> Clone for Receiver<T> {
    fn clone(&self) -> Self {
        self.chan.receivers.fetch_add(1, Ordering::SeqCst);
        Receiver { chan: self.chan.clone() }
    }
}
impl<T> Drop for Receiver<T> {
    fn drop(&mut self) {
        if self.chan.receivers.fetch_sub(1, Ordering::SeqCst) == 1 {
            if !sim::in_execution() {
                return;
            }
            let live = sim::current_task().is_some() && !std::thread::panicking();
            if live {
                self.chan.slots.close();
            } else {
                self.chan.slots.close_no_scheduling_point();
            }
            self.chan.core.0.receiver_gone(live);
            // crossbeam discards queued messages once the last receiver is gone
            let drained: Vec<T> = self.chan.queue.lock().unwrap().drain(..).collect();
            let c = &self.chan.core.0;
            c.queued.set(0);
            drop(drained);
        }
    }
}

pub struct Iter<'a, T> {
    r: &'a Receiver<T>,
}
impl<T> Iterator for Iter<'_, T> {
    type Item = T;
    fn next(&mut self) -> Option<T> {
        self.r.recv().ok()
    }
}
pub struct TryIter<'a, T> {
    r: &'a Receiver<T>,
}
impl<T> Iterator for TryIter<'_, T> {
    type Item = T;
    fn next(&mut self) -> Option<T> {
        self.r.try_recv().ok()
    }
}
impl<'a, T> IntoIterator for &'a Receiver<T> {
    type Item = T;
    type IntoIter = Iter<'a, T>;
    fn into_iter(self) -> Iter<'a, T> {
        self.iter()
    }
}

thread_local! { static TICKS: RefCell<Vec<Sender<Instant>>> = RefCell::new(Vec::new()); }

/// The real `tick(d)` delivers on wall-clock time. Here the returned channel (capacity 1) is fed
/// by the simulator: `sim::fire_ticks()` delivers one tick now (dropped if one is still pending,
/// exactly like a missed crossbeam tick), `sim::drop_ticks()` ends all tick channels (teardown).
pub fn tick(_d: Duration) -> Receiver<Instant> {
    let (s, r) = bounded(1);
    TICKS.with(|t| t.borrow_mut().push(s));
    r
}

pub mod sim_ticks {
    use super::*;
    /// Deliver a tick to every ticker; returns how many were actually queued (not coalesced).
    pub fn fire_ticks() -> usize {
        let v: Vec<Sender<Instant>> = TICKS.with(|t| t.borrow().iter().cloned().collect());
        let mut n = 0;
        for s in v {
            if s.try_send(Instant::now()).is_ok() {
                n += 1;
            }
        }
        n
    }
    pub fn drop_ticks() {
        let v = TICKS.with(|t| std::mem::take(&mut *t.borrow_mut()));
        drop(v);
    }
    pub fn tickers() -> usize {
        TICKS.with(|t| t.borrow().len())
    }
}

/// `select!` in the only shape the cache uses: one `send` arm plus `default` (a try-send).
#[macro_export]
macro_rules! select {
    (send($s:expr, $m:expr) -> $res:pat => $body:block $(,)? default => $dbody:block $(,)?) => {{
        let __sender = $s;
        let __outcome = match __sender.try_send($m) {
            Ok(()) => Some(Ok(())),
            Err($crate::TrySendError::Disconnected(m)) => Some(Err($crate::SendError(m))),
            Err($crate::TrySendError::Full(_)) => None,
        };
        match __outcome {
            Some($res) => $body,
            None => $dbody,
        }
    }};
    (send($s:expr, $m:expr) -> $res:pat => $body:expr, default => $dbody:expr $(,)?) => {{
        let __sender = $s;
        let __outcome = match __sender.try_send($m) {
            Ok(()) => Some(Ok(())),
            Err($crate::TrySendError::Disconnected(m)) => Some(Err($crate::SendError(m))),
            Err($crate::TrySendError::Full(_)) => None,
        };
        match __outcome {
            Some($res) => $body,
            None => $dbody,
        }
    }};
    // blocking single-arm forms (a mutant may drop the `default` arm)
    (send($s:expr, $m:expr) -> $res:pat => $body:block $(,)?) => {{
        let __sender = $s;
        match __sender.send($m) {
            $res => $body,
        }
    }};
    (recv($r:expr) -> $res:pat => $body:block $(,)?) => {{
        match $r.recv() {
            $res => $body,
        }
    }};
}
