//! Stand-in for parking_lot 0.12.1 (API subset used by tinylfu-cached) on simulator-owned locks.
//!
//! Policies kept faithful to the real crate:
//!  * `Mutex`: barging allowed (an unlocking thread does not hand the lock over) -> unfair semaphore.
//!  * `RwLock`: task-fair: once a writer is queued, new readers queue behind it, so a *recursive*
//!    read with a writer parked in between deadlocks in reality and must do so here
//!    (parking_lot docs, "RwLock ... uses a task-fair locking policy") -> strictly fair semaphore.
//!  * no poisoning.
pub use simsync::{MutexGuard, RwLockReadGuard, RwLockWriteGuard};

pub struct Mutex<T>(simsync::Mutex<T>);
impl<T> Mutex<T> {
    pub fn new(v: T) -> Self {
        Mutex(simsync::Mutex::new(v))
    }
    pub fn lock(&self) -> MutexGuard<'_, T> {
        self.0.lock()
    }
    pub fn try_lock(&self) -> Option<MutexGuard<'_, T>> {
        self.0.try_lock()
    }
    pub fn get_mut(&mut self) -> &mut T {
        self.0.get_mut()
    }
    pub fn into_inner(self) -> T {
        self.0.into_inner()
    }
}

pub struct RwLock<T>(simsync::RwLock<T>);
impl<T> RwLock<T> {
    pub fn new(v: T) -> Self {
        RwLock(simsync::RwLock::new(v, true))
    }
    pub fn read(&self) -> RwLockReadGuard<'_, T> {
        self.0.read()
    }
    pub fn write(&self) -> RwLockWriteGuard<'_, T> {
        self.0.write()
    }
    pub fn try_read(&self) -> Option<RwLockReadGuard<'_, T>> {
        self.0.try_read()
    }
    pub fn try_write(&self) -> Option<RwLockWriteGuard<'_, T>> {
        self.0.try_write()
    }
    pub fn get_mut(&mut self) -> &mut T {
        self.0.get_mut()
    }
    pub fn into_inner(self) -> T {
        self.0.into_inner()
    }
    /// Harness-only (see `simsync::RwLock::peek`).
    pub unsafe fn sim_peek(&self) -> &T {
        self.0.peek()
    }
}

impl<T: Default> Default for Mutex<T> {
    fn default() -> Self {
        Mutex::new(T::default())
    }
}
impl<T: Default> Default for RwLock<T> {
    fn default() -> Self {
        RwLock::new(T::default())
    }
}
